//! Reference IL interpreter (DESIGN Appendix B). It reads falcon's IL *data*
//! (blocks, instructions, edges) through public accessors into its own tables
//! and implements the step relation itself: own evaluator, own `forward`
//! relation, own byte memory.

use crate::bytemodel::ByteModel;
use crate::val::{eval, Scalars, Stuck, Val};
use falcon::il;
use std::collections::BTreeMap;

#[derive(Clone, Debug)]
pub struct RInstr {
    pub index: usize,
    pub address: Option<u64>,
    pub op: il::Operation,
}

#[derive(Clone, Debug)]
pub struct REdge {
    pub head: usize,
    pub tail: usize,
    pub cond: Option<il::Expression>,
}

#[derive(Clone, Debug)]
pub struct RFunc {
    pub address: u64,
    pub entry: Option<usize>,
    pub exit: Option<usize>,
    pub blocks: BTreeMap<usize, Vec<RInstr>>,
    pub out: BTreeMap<usize, Vec<REdge>>,
}

impl RFunc {
    pub fn from_function(f: &il::Function) -> RFunc {
        let mut blocks = BTreeMap::new();
        let mut out: BTreeMap<usize, Vec<REdge>> = BTreeMap::new();
        for b in f.blocks() {
            let v = b
                .instructions()
                .iter()
                .map(|i| RInstr {
                    index: i.index(),
                    address: i.address(),
                    op: i.operation().clone(),
                })
                .collect();
            blocks.insert(b.index(), v);
            out.insert(b.index(), Vec::new());
        }
        for e in f.edges() {
            out.entry(e.head()).or_default().push(REdge {
                head: e.head(),
                tail: e.tail(),
                cond: e.condition().cloned(),
            });
        }
        RFunc {
            address: f.address(),
            entry: f.control_flow_graph().entry(),
            exit: f.control_flow_graph().exit(),
            blocks,
            out,
        }
    }

    pub fn from_cfg(address: u64, cfg: &il::ControlFlowGraph) -> RFunc {
        RFunc::from_function(&il::Function::new(address, cfg.clone()))
    }

    pub fn entry_loc(&self, f: usize) -> Option<RLoc> {
        let e = self.entry?;
        let b = self.blocks.get(&e)?;
        Some(if b.is_empty() {
            RLoc::Empty { f, b: e }
        } else {
            RLoc::Instr { f, b: e, pos: 0 }
        })
    }
}

#[derive(Clone, Debug, PartialEq, Eq, PartialOrd, Ord)]
pub enum RLoc {
    Instr { f: usize, b: usize, pos: usize },
    Edge { f: usize, head: usize, tail: usize },
    Empty { f: usize, b: usize },
}

impl RLoc {
    pub fn func(&self) -> usize {
        match *self {
            RLoc::Instr { f, .. } | RLoc::Edge { f, .. } | RLoc::Empty { f, .. } => f,
        }
    }
}

#[derive(Clone, Debug, Default)]
pub struct RProgram {
    pub funcs: Vec<RFunc>,
}

impl RProgram {
    /// every instruction location carrying `address`
    pub fn locations_of_address(&self, address: u64) -> Vec<RLoc> {
        let mut v = Vec::new();
        for (fi, f) in self.funcs.iter().enumerate() {
            for (bi, instrs) in &f.blocks {
                for (pos, ins) in instrs.iter().enumerate() {
                    if ins.address == Some(address) {
                        v.push(RLoc::Instr {
                            f: fi,
                            b: *bi,
                            pos,
                        });
                    }
                }
            }
        }
        v
    }

    pub fn instr(&self, loc: &RLoc) -> Option<&RInstr> {
        match *loc {
            RLoc::Instr { f, b, pos } => self.funcs.get(f)?.blocks.get(&b)?.get(pos),
            _ => None,
        }
    }
}

#[derive(Clone, Debug, PartialEq, Eq)]
pub enum StepResult {
    /// moved to this location
    Moved(RLoc),
    /// executed a Branch operation to this address; the caller resolves it
    Branch(u64),
    /// no successor location / cannot proceed: the executor must report an error
    Stuck(String),
    /// more than one outgoing edge enabled (ill-formed for execution)
    Ambiguous(String),
}

#[derive(Clone, Debug)]
pub struct RState {
    pub scalars: Scalars,
    pub mem: ByteModel,
    /// lift-sim only: an intrinsic (an instruction the lifter does not model) is an opaque
    /// step that changes nothing, so that runs can continue past it on both sides. The
    /// executor semantics (C07) keep it an error.
    pub intrinsics_are_nops: bool,
}

fn stuck_str(s: &Stuck) -> String {
    match s {
        Stuck::UndefinedScalar(n) => format!("undefined scalar {}", n),
        Stuck::DivZero => "division by zero".to_string(),
        Stuck::Sort(m) => format!("sort: {}", m),
        Stuck::Undefined(m) => format!("undefined: {}", m),
    }
}

/// what kind of stuck, for reach statistics
pub fn stuck_kind(msg: &str) -> &'static str {
    if msg.starts_with("undefined scalar") {
        "undefined-scalar"
    } else if msg.starts_with("division by zero") {
        "div-zero"
    } else if msg.starts_with("unmapped") {
        "unmapped-memory"
    } else if msg.starts_with("intrinsic") {
        "intrinsic"
    } else if msg.starts_with("no guard") {
        "no-guard-holds"
    } else if msg.starts_with("no outgoing") {
        "no-out-edge"
    } else {
        "other"
    }
}

/// choose among the out-edges of block `b`
fn choose(func: &RFunc, f: usize, b: usize, st: &RState) -> StepResult {
    let edges = match func.out.get(&b) {
        Some(e) => e,
        None => return StepResult::Stuck("no outgoing edge (missing block)".into()),
    };
    if edges.is_empty() {
        return StepResult::Stuck("no outgoing edge".into());
    }
    let mut enabled = Vec::new();
    for e in edges {
        match &e.cond {
            None => enabled.push(e),
            Some(c) => match eval(c, &st.scalars) {
                Ok(v) => {
                    if v.bits == 1 && v.is_one() {
                        enabled.push(e)
                    }
                }
                Err(s) => return StepResult::Stuck(stuck_str(&s)),
            },
        }
    }
    match enabled.len() {
        0 => StepResult::Stuck("no guard holds".into()),
        1 => StepResult::Moved(RLoc::Edge {
            f,
            head: enabled[0].head,
            tail: enabled[0].tail,
        }),
        n => StepResult::Ambiguous(format!("{} outgoing edges of block {} enabled", n, b)),
    }
}

/// One step of the reference semantics. `st` is updated in place only when the
/// step does not get stuck.
pub fn step(prog: &RProgram, loc: &RLoc, st: &mut RState) -> StepResult {
    let f = loc.func();
    let func = match prog.funcs.get(f) {
        Some(x) => x,
        None => return StepResult::Stuck("no such function".into()),
    };
    match *loc {
        RLoc::Edge { tail, .. } => match func.blocks.get(&tail) {
            None => StepResult::Stuck("edge to missing block".into()),
            Some(instrs) if instrs.is_empty() => StepResult::Moved(RLoc::Empty { f, b: tail }),
            Some(_) => StepResult::Moved(RLoc::Instr {
                f,
                b: tail,
                pos: 0,
            }),
        },
        RLoc::Empty { b, .. } => choose(func, f, b, st),
        RLoc::Instr { b, pos, .. } => {
            let instrs = match func.blocks.get(&b) {
                Some(x) => x,
                None => return StepResult::Stuck("missing block".into()),
            };
            let ins = match instrs.get(pos) {
                Some(x) => x,
                None => return StepResult::Stuck("missing instruction".into()),
            };
            match exec_op(&ins.op, st) {
                OpResult::Stuck(m) => return StepResult::Stuck(m),
                OpResult::Branch(a) => return StepResult::Branch(a),
                OpResult::Fall => {}
            }
            if pos + 1 < instrs.len() {
                StepResult::Moved(RLoc::Instr { f, b, pos: pos + 1 })
            } else {
                choose(func, f, b, st)
            }
        }
    }
}

pub enum OpResult {
    Fall,
    Branch(u64),
    Stuck(String),
}

/// Apply one operation to the state (state untouched if stuck).
pub fn exec_op(op: &il::Operation, st: &mut RState) -> OpResult {
    use il::Operation as O;
    match op {
        O::Assign { dst, src } => match eval(src, &st.scalars) {
            Ok(v) => {
                st.scalars.insert(dst.name().to_string(), v);
                OpResult::Fall
            }
            Err(s) => OpResult::Stuck(stuck_str(&s)),
        },
        O::Load { dst, index } => {
            let a = match eval(index, &st.scalars) {
                Ok(v) => v,
                Err(s) => return OpResult::Stuck(stuck_str(&s)),
            };
            let a = match a.to_u64() {
                Some(a) => a,
                None => return OpResult::Stuck("address wider than 64 bits".into()),
            };
            if dst.bits() == 0 || dst.bits() % 8 != 0 {
                return OpResult::Stuck("load width not a positive byte multiple".into());
            }
            match st.mem.load(a, dst.bits()) {
                Some(v) => {
                    st.scalars.insert(dst.name().to_string(), v);
                    OpResult::Fall
                }
                None => OpResult::Stuck(format!("unmapped memory at 0x{:x}", a)),
            }
        }
        O::Store { index, src } => {
            let v = match eval(src, &st.scalars) {
                Ok(v) => v,
                Err(s) => return OpResult::Stuck(stuck_str(&s)),
            };
            let a = match eval(index, &st.scalars) {
                Ok(v) => v,
                Err(s) => return OpResult::Stuck(stuck_str(&s)),
            };
            let a = match a.to_u64() {
                Some(a) => a,
                None => return OpResult::Stuck("address wider than 64 bits".into()),
            };
            if v.bits == 0 || v.bits % 8 != 0 {
                return OpResult::Stuck("store width not a positive byte multiple".into());
            }
            st.mem.store(a, &v);
            OpResult::Fall
        }
        O::Branch { target } => match eval(target, &st.scalars) {
            Ok(v) => match v.to_u64() {
                Some(a) => OpResult::Branch(a),
                None => OpResult::Stuck("address wider than 64 bits".into()),
            },
            Err(s) => OpResult::Stuck(stuck_str(&s)),
        },
        O::Intrinsic { .. } => {
            if st.intrinsics_are_nops {
                OpResult::Fall
            } else {
                OpResult::Stuck("intrinsic".into())
            }
        }
        O::Nop { .. } => OpResult::Fall,
    }
}

pub fn val_map_from(pairs: &[(String, Val)]) -> Scalars {
    pairs.iter().cloned().collect()
}
