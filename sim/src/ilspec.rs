//! Script-level description of IL expressions / programs (plain data, serde),
//! and the builders that turn it into falcon IL through the public API.

use crate::val::Val;
use falcon::il;
use num_bigint::BigUint;
use num_traits::Num;
use serde::{Deserialize, Serialize};

#[derive(Clone, Debug, Serialize, Deserialize, PartialEq, Eq)]
pub enum ExprSpec {
    /// name, bits
    S(String, usize),
    /// hex value (no 0x), bits
    C(String, usize),
    /// binary operator by name
    B(String, Box<ExprSpec>, Box<ExprSpec>),
    /// "zext" | "sext" | "trun", bits
    X(String, usize, Box<ExprSpec>),
    Ite(Box<ExprSpec>, Box<ExprSpec>, Box<ExprSpec>),
}

pub const BINOPS: &[&str] = &[
    "add", "sub", "mul", "divu", "modu", "divs", "mods", "and", "or", "xor", "shl", "shr", "ashr",
    "cmpeq", "cmpneq", "cmpltu", "cmplts",
];

impl ExprSpec {
    pub fn c(v: &Val) -> ExprSpec {
        ExprSpec::C(format!("{:x}", v.v), v.bits)
    }
    pub fn cu(v: u64, bits: usize) -> ExprSpec {
        ExprSpec::C(format!("{:x}", v), bits)
    }
    pub fn s(name: &str, bits: usize) -> ExprSpec {
        ExprSpec::S(name.to_string(), bits)
    }
    pub fn b(op: &str, a: ExprSpec, b: ExprSpec) -> ExprSpec {
        ExprSpec::B(op.to_string(), Box::new(a), Box::new(b))
    }
    pub fn x(op: &str, bits: usize, a: ExprSpec) -> ExprSpec {
        ExprSpec::X(op.to_string(), bits, Box::new(a))
    }
    pub fn ite(c: ExprSpec, t: ExprSpec, f: ExprSpec) -> ExprSpec {
        ExprSpec::Ite(Box::new(c), Box::new(t), Box::new(f))
    }

    /// static width (specs are well-sorted by construction)
    pub fn bits(&self) -> usize {
        match self {
            ExprSpec::S(_, b) | ExprSpec::C(_, b) => *b,
            ExprSpec::B(op, a, _) => {
                if op.starts_with("cmp") {
                    1
                } else {
                    a.bits()
                }
            }
            ExprSpec::X(_, b, _) => *b,
            ExprSpec::Ite(_, t, _) => t.bits(),
        }
    }

    pub fn size(&self) -> usize {
        match self {
            ExprSpec::S(..) | ExprSpec::C(..) => 1,
            ExprSpec::B(_, a, b) => 1 + a.size() + b.size(),
            ExprSpec::X(_, _, a) => 1 + a.size(),
            ExprSpec::Ite(c, t, f) => 1 + c.size() + t.size() + f.size(),
        }
    }

    pub fn build(&self) -> Result<il::Expression, String> {
        use il::Expression as E;
        let r = match self {
            ExprSpec::S(n, b) => Ok(il::expr_scalar(n.clone(), *b)),
            ExprSpec::C(h, b) => {
                let v = BigUint::from_str_radix(h, 16).map_err(|e| format!("bad hex: {}", e))?;
                Ok(E::constant(il::Constant::new_big(v, *b)))
            }
            ExprSpec::B(op, a, b) => {
                let (a, b) = (a.build()?, b.build()?);
                match op.as_str() {
                    "add" => E::add(a, b),
                    "sub" => E::sub(a, b),
                    "mul" => E::mul(a, b),
                    "divu" => E::divu(a, b),
                    "modu" => E::modu(a, b),
                    "divs" => E::divs(a, b),
                    "mods" => E::mods(a, b),
                    "and" => E::and(a, b),
                    "or" => E::or(a, b),
                    "xor" => E::xor(a, b),
                    "shl" => E::shl(a, b),
                    "shr" => E::shr(a, b),
                    "ashr" => E::ashr(a, b),
                    "cmpeq" => E::cmpeq(a, b),
                    "cmpneq" => E::cmpneq(a, b),
                    "cmpltu" => E::cmpltu(a, b),
                    "cmplts" => E::cmplts(a, b),
                    _ => return Err(format!("unknown binop {}", op)),
                }
            }
            ExprSpec::X(op, bits, a) => {
                let a = a.build()?;
                match op.as_str() {
                    "zext" => E::zext(*bits, a),
                    "sext" => E::sext(*bits, a),
                    "trun" => E::trun(*bits, a),
                    _ => return Err(format!("unknown ext {}", op)),
                }
            }
            ExprSpec::Ite(c, t, f) => E::ite(c.build()?, t.build()?, f.build()?),
        };
        r.map_err(|e| format!("constructor rejected {:?}: {}", self, e))
    }

    /// immediate sub-expressions (for shrinking)
    pub fn children(&self) -> Vec<&ExprSpec> {
        match self {
            ExprSpec::S(..) | ExprSpec::C(..) => vec![],
            ExprSpec::B(_, a, b) => vec![a, b],
            ExprSpec::X(_, _, a) => vec![a],
            ExprSpec::Ite(c, t, f) => vec![c, t, f],
        }
    }
}

#[derive(Clone, Debug, Serialize, Deserialize, PartialEq, Eq)]
pub enum OpSpec {
    Assign(String, usize, ExprSpec),
    /// dst name, dst bits, index
    Load(String, usize, ExprSpec),
    /// index, src
    Store(ExprSpec, ExprSpec),
    Branch(ExprSpec),
    Intrinsic,
    /// an intrinsic whose written/read expression lists are present but empty (the shape
    /// the MIPS lifter gives syscall/break/trap), or present with one read expression
    IntrinsicWithLists(bool),
    Nop,
    /// a `Nop` standing in for the given operation (`Operation::placeholder`, what lifters
    /// leave for a direct jump): does nothing, whatever it wraps
    Placeholder(Box<OpSpec>),
}

#[derive(Clone, Debug, Serialize, Deserialize, PartialEq, Eq)]
pub struct InstrSpec {
    pub op: OpSpec,
    pub address: Option<u64>,
}

#[derive(Clone, Debug, Serialize, Deserialize, PartialEq, Eq)]
pub struct EdgeSpec {
    pub head: usize,
    pub tail: usize,
    pub cond: Option<ExprSpec>,
}

#[derive(Clone, Debug, Serialize, Deserialize, PartialEq, Eq)]
pub struct FuncSpec {
    pub address: u64,
    pub blocks: Vec<Vec<InstrSpec>>,
    pub edges: Vec<EdgeSpec>,
    pub entry: usize,
    /// (block, position) of instructions removed again after the block was built, in
    /// order: leaves blocks whose instruction indices differ from their positions, as a
    /// dead-code pass does
    #[serde(default)]
    pub removed: Vec<(usize, usize)>,
    /// (block, from position, to position): instructions moved inside their block through
    /// `instructions_mut()` after building, as an instrumentation or scheduling pass does;
    /// instruction indices are then no longer ascending
    #[serde(default)]
    pub moved: Vec<(usize, usize, usize)>,
    /// (block, instruction) appended to a block after the removals and moves above, as a
    /// pass that rewrites a block does: the new instruction must get an index of its own
    #[serde(default)]
    pub appended: Vec<(usize, InstrSpec)>,
}

impl FuncSpec {
    pub fn build(&self) -> Result<il::Function, String> {
        let mut cfg = il::ControlFlowGraph::new();
        fn push(block: &mut il::Block, ins: &InstrSpec) -> Result<(), String> {
            {
                match &ins.op {
                    OpSpec::Assign(n, b, e) => block.assign(il::scalar(n.clone(), *b), e.build()?),
                    OpSpec::Load(n, b, e) => block.load(il::scalar(n.clone(), *b), e.build()?),
                    OpSpec::Store(i, s) => block.store(i.build()?, s.build()?),
                    OpSpec::Branch(t) => block.branch(t.build()?),
                    OpSpec::Intrinsic => block.intrinsic(il::Intrinsic::new(
                        "sim",
                        "sim intrinsic",
                        Vec::new(),
                        None,
                        None,
                        vec![0, 0, 0, 0],
                    )),
                    OpSpec::IntrinsicWithLists(with_read) => block.intrinsic(il::Intrinsic::new(
                        "sim",
                        "sim intrinsic with lists",
                        Vec::new(),
                        Some(Vec::new()),
                        Some(if *with_read { vec![il::expr_const(1, 32)] } else { Vec::new() }),
                        vec![0, 0, 0, 0],
                    )),
                    OpSpec::Nop => block.nop(),
                    OpSpec::Placeholder(inner) => {
                        let op = match &**inner {
                            OpSpec::Assign(n, b, e) => il::Operation::assign(il::scalar(n.clone(), *b), e.build()?),
                            OpSpec::Load(n, b, e) => il::Operation::load(il::scalar(n.clone(), *b), e.build()?),
                            OpSpec::Store(i, s) => il::Operation::store(i.build()?, s.build()?),
                            OpSpec::Branch(t) => il::Operation::branch(t.build()?),
                            _ => il::Operation::nop(),
                        };
                        block.placeholder(op)
                    }
                }
                let last = block.instructions_mut().last_mut().unwrap();
                last.set_address(ins.address);
            }
            Ok(())
        }
        for instrs in &self.blocks {
            let block = cfg.new_block().map_err(|e| e.to_string())?;
            for ins in instrs {
                push(block, ins)?;
            }
        }
        for e in &self.edges {
            if e.head >= self.blocks.len() || e.tail >= self.blocks.len() {
                continue;
            }
            let r = match &e.cond {
                Some(c) => cfg.conditional_edge(e.head, e.tail, c.build()?),
                None => cfg.unconditional_edge(e.head, e.tail),
            };
            // duplicate (head, tail) pairs are rejected by the graph: ignore, the
            // reference reads the resulting function, not the spec
            let _ = r;
        }
        for &(b, pos) in &self.removed {
            if let Ok(block) = cfg.block_mut(b) {
                if let Some(index) = block.instructions().get(pos).map(|i| i.index()) {
                    let _ = block.remove_instruction(index);
                }
            }
        }
        for &(b, from, to) in &self.moved {
            if let Ok(block) = cfg.block_mut(b) {
                let v = block.instructions_mut();
                if from < v.len() && to < v.len() && from != to {
                    let ins = v.remove(from);
                    v.insert(to, ins);
                }
            }
        }
        for (b, ins) in &self.appended {
            if let Ok(block) = cfg.block_mut(*b) {
                push(block, ins)?;
            }
        }
        if self.entry < self.blocks.len() {
            cfg.set_entry(self.entry).map_err(|e| e.to_string())?;
        }
        Ok(il::Function::new(self.address, cfg))
    }
}
