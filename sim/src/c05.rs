//! lift-sim, property C05: corrupting faults at the byte-stream seam. Valid
//! programs with injected bit flips / substitutions / splices / truncation,
//! random byte strings, unstable and short reads, holes; every translator and
//! both unsupported-instruction policies. `translate_block` results are put
//! through the structural checker; everything must return (Ok or Err).

use crate::asm::{self, Arch, Slot};
use crate::harness::{catch, panic_site, Counters, Violation};
use crate::rng::{LogHash, Rng};
use crate::simmem::{SeamFaults, SimMemory};
use crate::wellformed::{self, Checked};
use falcon::il;
use falcon::translator::{ManualEdge, Options};
use serde::{Deserialize, Serialize};
use std::collections::BTreeSet;

const CORPUS_X86: &str = include_str!("../corpus/x86.txt");
// hand-written additions: string instructions with rep/size prefixes, far/indirect
// control transfers, legacy one-byte opcodes
const CORPUS_X86_EXTRA: &str = include_str!("../corpus/x86_extra.txt");
const CORPUS_MIPS: &str = include_str!("../corpus/mips.txt");
const CORPUS_PPC: &str = include_str!("../corpus/ppc.txt");
const CORPUS_A64: &str = include_str!("../corpus/aarch64.txt");

pub fn corpus(arch: Arch) -> Vec<Vec<u8>> {
    let x86_all = format!("{}\n{}", CORPUS_X86, CORPUS_X86_EXTRA);
    let text = match arch.family() {
        "x86" => x86_all.as_str(),
        "mips" => CORPUS_MIPS,
        "ppc" => CORPUS_PPC,
        _ => CORPUS_A64,
    };
    text.lines()
        .filter(|l| !l.trim().is_empty())
        .map(|l| {
            let mut b = asm::unhex(l.trim());
            if arch == Arch::Mipsel {
                for w in b.chunks_mut(4) {
                    w.reverse();
                }
            }
            b
        })
        .filter(|b| arch.is_x86() || b.len() % 4 == 0)
        .collect()
}

#[derive(Clone, Debug, Serialize, Deserialize, PartialEq, Eq)]
pub struct Case {
    pub arch: Arch,
    pub intrinsics: bool,
    pub address: u64,
    /// "block" (translate_block on the bytes) | "function" (through the seam)
    pub mode: String,
    /// hex
    pub bytes: String,
    /// how the bytes were made (label only)
    pub kind: String,
    /// function mode: unmapped holes as (offset, len)
    pub holes: Vec<(usize, usize)>,
    pub faults: SeamFaults,
    pub window_cap: Option<usize>,
    /// function mode: (head offset, tail offset, guarded?)
    pub manual_edges: Vec<(usize, usize, bool)>,
}

pub struct Outcome {
    pub violation: Option<Violation>,
    pub counters: Counters,
    pub states: BTreeSet<String>,
    pub log: LogHash,
    pub ticks: u64,
    pub nontrivial: bool,
}

/// mnemonic of the instruction at `offset` (labelling only, never decides anything)
pub fn mnemonic_at(arch: Arch, bytes: &[u8], address: u64, offset: usize) -> String {
    use falcon_capstone::capstone as cs;
    if offset >= bytes.len() {
        return "?".into();
    }
    let slice = &bytes[offset..];
    let a = address + offset as u64;
    let r = catch(|| match arch {
        Arch::AArch64 | Arch::AArch64Eb => {
            if slice.len() < 4 {
                return "?".to_string();
            }
            let w = u32::from_le_bytes([slice[0], slice[1], slice[2], slice[3]]);
            match bad64::decode(w, a) {
                Ok(i) => format!("{:?}", i.op()).to_lowercase(),
                Err(_) => "undecodable".into(),
            }
        }
        _ => {
            let c = match arch {
                Arch::X86 => cs::Capstone::new(cs::cs_arch::CS_ARCH_X86, cs::CS_MODE_32),
                Arch::Amd64 => cs::Capstone::new(cs::cs_arch::CS_ARCH_X86, cs::CS_MODE_64),
                Arch::Mips => cs::Capstone::new(cs::cs_arch::CS_ARCH_MIPS, cs::CS_MODE_32 | cs::CS_MODE_BIG_ENDIAN),
                Arch::Mipsel => cs::Capstone::new(cs::cs_arch::CS_ARCH_MIPS, cs::CS_MODE_32 | cs::CS_MODE_LITTLE_ENDIAN),
                _ => cs::Capstone::new(cs::cs_arch::CS_ARCH_PPC, cs::CS_MODE_32 | cs::CS_MODE_BIG_ENDIAN),
            };
            match c {
                Ok(c) => match c.disasm(slice, a, 1) {
                    Ok(ins) if ins.count() > 0 => ins.get(0).map(|i| i.mnemonic.clone()).unwrap_or("?".into()),
                    _ => "undecodable".into(),
                },
                Err(_) => "?".into(),
            }
        }
    });
    r.unwrap_or_else(|_| "?".into())
}

fn finding_offset(arch: Arch, case_address: u64, addr: u64) -> usize {
    let off = addr.wrapping_sub(case_address) as usize;
    if arch.is_x86() {
        off
    } else {
        off & !3
    }
}

/// one rendering of what translate_block returns for an input (IL text and successors, or
/// "err", or "panic"), for comparing two lifts of the same input
fn render_block(arch: Arch, bytes: &[u8], address: u64, intrinsics: bool) -> String {
    let mut opts = Options::default();
    opts.set_unsupported_are_intrinsics(intrinsics);
    let t = arch.translator();
    match catch(|| t.translate_block(bytes, address, &opts)) {
        Err(_) => "panic".into(),
        Ok(Err(_)) => "err".into(),
        Ok(Ok(r)) => {
            let mut s = format!("ok length={}", r.length());
            for (a, g) in r.instructions() {
                s.push_str(&format!("\n@{:x}\n{}", a, g));
            }
            for (a, c) in r.successors() {
                s.push_str(&format!("\n-> {:x} if {}", a, c.as_ref().map(|c| c.to_string()).unwrap_or_default()));
            }
            s
        }
    }
}

pub fn execute(case: &Case) -> Outcome {
    let mut c = Counters::default();
    let mut states = BTreeSet::new();
    let mut log = LogHash::new();
    let arch = case.arch;
    let bytes = asm::unhex(&case.bytes);
    let mut opts = Options::default();
    opts.set_unsupported_are_intrinsics(case.intrinsics);
    let t = arch.translator();
    log.str(arch.name());
    log.u64(case.intrinsics as u64);
    log.u64(case.address);
    log.bytes(&bytes);
    let opt = if case.intrinsics { "intrinsics" } else { "errors" };
    c.inc(&format!("input.{}", case.kind));
    c.inc(&format!("translator.{}", arch.name()));
    let mut violation = None;
    let mut nontrivial = false;
    let outcome;
    if case.mode == "block" {
        c.inc("mode.block");
        let r = catch(|| t.translate_block(&bytes, case.address, &opts));
        match r {
            Err(p) => {
                outcome = "panic";
                let site = panic_site(&p);
                violation = Some(Violation::new(
                    "panic",
                    format!("family={} site={}", arch.family(), site),
                    format!(
                        "{} translate_block({} bytes @0x{:x}, {}) panicked: {}",
                        arch.name(),
                        bytes.len(),
                        case.address,
                        opt,
                        p
                    ),
                ));
            }
            Ok(Err(e)) => {
                outcome = "err";
                c.inc(&format!("result.err.{}", arch.name()));
                log.str("err");
                let _ = e;
            }
            Ok(Ok(r)) => {
                outcome = "ok";
                c.inc(&format!("result.ok.{}", arch.name()));
                let mut checked = Checked::default();
                let findings = match catch(|| wellformed::check_block_result(&r, case.address ^ bytes.len() as u64, &mut checked)) {
                    Ok(f) => f,
                    Err(p) => {
                        // the checker only calls accessors and Display; a panic there is falcon's
                        vec![wellformed::Finding { rule: "panic", address: None, detail: format!("while inspecting the result: {}", p) }]
                    }
                };
                c.add("checked.expressions", checked.expressions);
                c.add("checked.operations", checked.operations);
                c.add("checked.instruction-graphs", checked.graphs);
                c.add("checked.guard-sets", checked.guard_sets);
                c.add("checked.valuations", checked.valuations);
                let mut intrinsics = 0;
                for (_, g) in r.instructions() {
                    for b in g.blocks() {
                        for i in b.instructions() {
                            if matches!(i.operation(), il::Operation::Intrinsic { .. }) {
                                intrinsics += 1;
                            }
                        }
                    }
                }
                c.add("result.intrinsics", intrinsics);
                nontrivial = checked.operations > 0;
                log.u64(r.instructions().len() as u64);
                log.u64(r.successors().len() as u64);
                log.u64(checked.operations);
                if let Some(f) = findings.first() {
                    let mn = match f.address {
                        Some(a) => mnemonic_at(arch, &bytes, case.address, finding_offset(arch, case.address, a)),
                        None => "-".into(),
                    };
                    violation = Some(Violation::new(
                        f.rule,
                        format!("family={} rule={} mnemonic={}", arch.family(), f.rule, mn),
                        format!(
                            "{} translate_block({} @0x{:x}, {}): {}",
                            arch.name(),
                            case.bytes,
                            case.address,
                            opt,
                            f.detail
                        ),
                    ));
                }
            }
        }
        // "deterministic": the result is a function of (bytes, address, translator, options)
        // and not of what this thread lifted before. One input in sixty-four is lifted again on a
        // fresh thread - whose thread-local state, if the library keeps any, is empty - and
        // the two renderings must agree.
        if violation.is_none() && (bytes.iter().fold(case.address, |h, b| h.wrapping_mul(31).wrapping_add(*b as u64)) % 64 == 0) {
            c.inc("checked.fresh-thread-lifts");
            let here = render_block(arch, &bytes, case.address, case.intrinsics);
            let (b2, a2, i2) = (bytes.clone(), case.address, case.intrinsics);
            let there = std::thread::spawn(move || render_block(arch, &b2, a2, i2)).join().unwrap_or_else(|_| "panic".into());
            if here != there {
                let first = here.lines().zip(there.lines()).find(|(x, y)| x != y).map(|(x, y)| format!("'{}' vs '{}'", x, y)).unwrap_or_else(|| "different lengths".into());
                violation = Some(Violation::new(
                    "history-dependent-result",
                    format!("family={} rule=history-dependent-result", arch.family()),
                    format!(
                        "{} translate_block({} @0x{:x}, {}) returns something else on this thread, which has lifted other inputs before, than on a fresh thread: {}",
                        arch.name(),
                        case.bytes,
                        case.address,
                        opt,
                        first
                    ),
                ));
            }
        }
    } else {
        c.inc("mode.function");
        let mut mem = SimMemory::new(case.faults.clone());
        // map the image minus the holes
        let mut mapped = vec![true; bytes.len()];
        for &(o, l) in &case.holes {
            for m in mapped.iter_mut().skip(o).take(l) {
                *m = false;
            }
        }
        let mut i = 0;
        while i < bytes.len() {
            if mapped[i] {
                let mut j = i;
                while j < bytes.len() && mapped[j] {
                    j += 1;
                }
                mem.map(case.address + i as u64, &bytes[i..j], 5);
                i = j;
            } else {
                i += 1;
            }
        }
        if !case.holes.is_empty() {
            c.inc("fault.holes");
        }
        for &(h, tl, guarded) in &case.manual_edges {
            let cond = if guarded { Some(il::expr_scalar("manual_guard", 1)) } else { None };
            opts.add_manual_edge(ManualEdge::new(case.address + h as u64, case.address + tl as u64, cond));
            c.inc("fault.manual-edge-anywhere");
        }
        falcon::verif::set_window_cap(case.window_cap.unwrap_or(usize::MAX));
        if case.window_cap.is_some() {
            c.inc("fault.window-cap");
        }
        let r = catch(|| t.translate_function_extended(&mem, case.address, &opts));
        falcon::verif::set_window_cap(usize::MAX);
        c.add("fault.unstable-read-fired", *mem.unstable_fired.borrow());
        c.add("fault.short-read-fired", *mem.short_fired.borrow());
        c.add("seam.get_bytes-calls", mem.calls.borrow().len() as u64);
        nontrivial = mem.calls.borrow().len() > 1 || *mem.unstable_fired.borrow() > 0;
        match r {
            Err(p) => {
                outcome = "panic";
                violation = Some(Violation::new(
                    "panic",
                    format!("family={} site={}", arch.family(), panic_site(&p)),
                    format!("{} translate_function_extended(@0x{:x}, {}) panicked: {}", arch.name(), case.address, opt, p),
                ));
            }
            Ok(Err(_)) => {
                outcome = "err";
                c.inc(&format!("result.function-err.{}", arch.name()));
                log.str("err");
            }
            Ok(Ok(f)) => {
                outcome = "ok";
                c.inc(&format!("result.function-ok.{}", arch.name()));
                log.u64(f.blocks().len() as u64);
                log.u64(f.edges().len() as u64);
                // the recovered function is IL too: its entry and every edge must name
                // existing blocks (guard exclusivity at function level is C06's business)
                let ids: BTreeSet<usize> = f.blocks().iter().map(|b| b.index()).collect();
                let entry = f.control_flow_graph().entry();
                let bad_edge = f.edges().iter().find(|e| !ids.contains(&e.head()) || !ids.contains(&e.tail())).map(|e| (e.head(), e.tail()));
                if entry.map(|e| !ids.contains(&e)).unwrap_or(true) || bad_edge.is_some() {
                    violation = Some(Violation::new(
                        "graph-entry-exit",
                        format!("family={} rule=function-entry-or-edge", arch.family()),
                        format!(
                            "{} translate_function_extended(@0x{:x}, {}): entry {:?} / edge {:?} names a block that is not in the function ({} blocks)",
                            arch.name(), case.address, opt, entry, bad_edge, ids.len()
                        ),
                    ));
                }
            }
        }
    }
    let fault = if case.faults.unstable_from_call.is_some() {
        "unstable"
    } else if case.faults.short_read_every.is_some() {
        "short-read"
    } else if !case.holes.is_empty() {
        "holes"
    } else {
        "none"
    };
    states.insert(format!("{}|{}|{}|{}|{}|{}", arch.name(), opt, case.mode, case.kind, fault, outcome));
    Outcome {
        violation,
        counters: c,
        states,
        log,
        ticks: 1,
        nontrivial,
    }
}

// ---------------------------------------------------------------- generation

fn unit_from_forms(rng: &mut Rng, arch: Arch, at: u64) -> Vec<u8> {
    let s = match rng.below(10) {
        0..=5 => Slot::Op {
            form: rng.below(asm::num_forms(arch) as u64) as u8,
            a: rng.below(8) as u8,
            b: rng.below(8) as u8,
            c: rng.below(8) as u8,
            imm: rng.next() as u32,
        },
        6 if asm::has_cond(arch) => Slot::Cond {
            cc: rng.below(asm::num_cc(arch) as u64) as u8,
            a: rng.below(8) as u8,
            b: rng.below(8) as u8,
            target: 0,
            short: rng.chance(1, 2),
            delay: None,
        },
        7 => Slot::Jump { target: 0, short: rng.chance(1, 2), delay: None },
        8 => Slot::Call { target: 0, delay: None },
        9 => Slot::Term { kind: rng.below(3) as u8, a: rng.below(8) as u8, delay: None },
        _ => Slot::Pad(rng.range(1, 9) as u8),
    };
    let target = at.wrapping_add(rng.below(120)).wrapping_sub(40) & !(arch.insn_align() - 1);
    let mut b = asm::encode(arch, &s, at, target);
    if arch.is_mips() && b.len() == 8 && rng.chance(1, 3) {
        // sometimes leave the delay slot to whatever follows
        b.truncate(4);
    }
    b
}

const X86_PREFIXES: [u8; 18] = [0x66, 0x67, 0xf2, 0xf3, 0x2e, 0x36, 0x3e, 0x26, 0x64, 0x65, 0xf0, 0x40, 0x41, 0x44, 0x48, 0x49, 0x4c, 0x4f];

/// [0-3 prefixes] opcode (one byte, 0f xx, or a string/control opcode) [random tail]
fn x86_structured(rng: &mut Rng) -> Vec<u8> {
    let mut b = Vec::new();
    for _ in 0..rng.range(0, 3) {
        b.push(*rng.pick(&X86_PREFIXES));
    }
    match rng.below(4) {
        0 => b.push(*rng.pick(&[0xa4u8, 0xa5, 0xa6, 0xa7, 0xaa, 0xab, 0xac, 0xad, 0xae, 0xaf, 0x6c, 0x6d, 0x6e, 0x6f, 0xc3, 0xe2, 0xe3, 0xff, 0x8e, 0x8c, 0xf6, 0xf7, 0xc6, 0xc7])),
        1 => {
            b.push(0x0f);
            b.push(rng.next() as u8);
        }
        _ => b.push(rng.next() as u8),
    }
    let tail = rng.usize_below(9);
    b.extend(rng.bytes(tail));
    b
}

/// [operand-size / address-size / REX.W / rep prefixes] opcode-with-ModRM ModRM [SIB/disp/imm]:
/// every addressing form of every ModRM instruction under every size override
fn x86_modrm(rng: &mut Rng, amd64: bool) -> Vec<u8> {
    const PFX: [&[u8]; 10] = [&[], &[0x66], &[0x67], &[0x66, 0x67], &[0x48], &[0x67, 0x48], &[0xf3], &[0xf2], &[0x67, 0xf3], &[0x66, 0x48]];
    let mut ops: Vec<u8> = Vec::new();
    for base in [0x00u8, 0x08, 0x10, 0x18, 0x20, 0x28, 0x30, 0x38] {
        ops.extend([base, base + 1, base + 2, base + 3]);
    }
    ops.extend([0x62, 0x63, 0x69, 0x6b, 0x80, 0x81, 0x83, 0xc0, 0xc1, 0xc4, 0xc5, 0xc6, 0xc7, 0xf6, 0xf7, 0xfe, 0xff]);
    ops.extend(0x84u8..=0x8f);
    ops.extend(0xd0u8..=0xd3);
    ops.extend(0xd8u8..=0xdf);
    let mut b: Vec<u8> = Vec::new();
    let mut pfx = *rng.pick(&PFX);
    if !amd64 && pfx.contains(&0x48) {
        pfx = &[0x67];
    }
    b.extend_from_slice(pfx);
    if rng.chance(1, 4) {
        b.push(0x0f);
        b.push(rng.next() as u8);
    } else {
        b.push(*rng.pick(&ops));
    }
    // ModRM: every mod/rm class, the register field random
    let md = rng.below(4) as u8;
    let rm = rng.below(8) as u8;
    b.push((md << 6) | ((rng.below(8) as u8) << 3) | rm);
    // SIB and displacement as the addressing form demands, the displacement at its extremes
    // (minimum / maximum encodable value, -1, 0) half of the time
    let addr16 = !amd64 && pfx.contains(&0x67);
    let mut disp = 0usize;
    if md != 3 {
        if addr16 {
            disp = match (md, rm) {
                (0, 6) | (2, _) => 2,
                (1, _) => 1,
                _ => 0,
            };
        } else {
            let mut base5 = false;
            if rm == 4 {
                let sib = rng.next() as u8;
                base5 = sib & 7 == 5;
                b.push(sib);
            }
            disp = match md {
                0 if rm == 5 || base5 => 4,
                1 => 1,
                2 => 4,
                _ => 0,
            };
        }
    }
    if disp > 0 {
        if rng.chance(1, 2) {
            let v: u32 = match disp {
                1 => *rng.pick(&[0x80u32, 0x7f, 0xff, 0x00]),
                2 => *rng.pick(&[0x8000u32, 0x7fff, 0xffff, 0x0000, 0xff80]),
                _ => *rng.pick(&[0x8000_0000u32, 0x7fff_ffff, 0xffff_ffff, 0, 0xffff_ff80, 0x8000_0001]),
            };
            b.extend_from_slice(&v.to_le_bytes()[..disp]);
        } else {
            b.extend(rng.bytes(disp));
        }
    }
    let tail = rng.usize_below(9);
    b.extend(rng.corner_bytes(tail.max(1)));
    b
}

fn mutate(rng: &mut Rng, arch: Arch, b: &mut Vec<u8>) -> &'static str {
    if b.is_empty() {
        return "empty";
    }
    match rng.below(6) {
        0 => {
            for _ in 0..rng.range(1, 3) {
                let i = rng.usize_below(b.len());
                b[i] ^= 1 << rng.below(8);
            }
            "bitflip"
        }
        1 => {
            let i = rng.usize_below(b.len());
            b[i] = rng.next() as u8;
            "byte-substitution"
        }
        2 if arch.is_x86() => {
            for _ in 0..rng.range(1, 3) {
                let p = *rng.pick(&X86_PREFIXES);
                b.insert(0, p);
            }
            "x86-prefix"
        }
        3 if arch.is_x86() => {
            // replace what is probably the modrm byte and append sib/disp material
            let i = (1 + rng.usize_below(2)).min(b.len() - 1);
            b[i] = rng.next() as u8;
            let n_extra = rng.usize_below(6);
            let extra = rng.bytes(n_extra);
            let at = (i + 1).min(b.len());
            for (k, x) in extra.into_iter().enumerate() {
                b.insert(at + k, x);
            }
            "x86-modrm"
        }
        2 | 3 => {
            // fixed width: randomise an operand field of one word
            let w = rng.usize_below(b.len() / 4) * 4;
            let mut word = u32::from_le_bytes([b[w], b[w + 1], b[w + 2], b[w + 3]]);
            let be = matches!(arch, Arch::Mips | Arch::Ppc);
            if be {
                word = word.swap_bytes();
            }
            let n = *rng.pick(&[5u32, 10, 11, 16, 21, 26]);
            let shift = *rng.pick(&[0u32, 5, 10, 16]);
            let mask = (((1u64 << n) - 1) as u32) << shift;
            word = (word & !mask) | (rng.next() as u32 & mask);
            if be {
                word = word.swap_bytes();
            }
            b[w..w + 4].copy_from_slice(&word.to_le_bytes());
            "field-randomised"
        }
        4 => {
            let n = rng.usize_below(b.len());
            b.truncate(n);
            "truncated"
        }
        _ => {
            let i = rng.usize_below(b.len() + 1);
            let n_extra = if arch.is_x86() { rng.range(1, 4) as usize } else { 4 };
            let extra = rng.bytes(n_extra);
            for (k, x) in extra.into_iter().enumerate() {
                b.insert(i + k, x);
            }
            "spliced-random"
        }
    }
}

pub fn generate(run_seed: u64, _index: u64) -> Case {
    let mut rng = Rng::new(run_seed);
    let arch = *rng.pick(&asm::ALL_ARCHS);
    let intrinsics = rng.chance(1, 2);
    let align = arch.insn_align();
    let address = match rng.below(8) {
        0 => 0,
        1 => 0x1000,
        2 => 0x40_0000 + rng.below(64) * align,
        3 => 0x7fff_f000 + rng.below(512) * align,
        4 if rng.chance(1, 2) => 0xffff_e000 + rng.below(512) * align,
        // the last bytes below 2^32: the image ends at or crosses the line
        4 => 0xffff_ffc0 + rng.below(64 / align) * align,
        5 if arch.addr_bits() == 64 => 0x7fff_ffff_ffff_0000 + rng.below(512) * align,
        _ => (rng.below(1 << 20) * 64 + rng.below(64)) & !(align - 1),
    };
    // "any address": fixed-width code loaded off its natural alignment now and then (absolute
    // jumps then land in another alignment class of the same bytes)
    let address = if !arch.is_x86() && rng.chance(1, 10) { address.wrapping_add(rng.range(1, 3)) } else { address };
    let corp = corpus(arch);
    let mut kind;
    let mut bytes: Vec<u8> = Vec::new();
    match rng.below(10) {
        0 if arch.is_x86() => {
            if rng.chance(1, 2) {
                kind = "x86-structured".to_string();
                for _ in 0..rng.range(1, 4) {
                    bytes.extend(x86_structured(&mut rng));
                }
            } else {
                kind = "x86-modrm".to_string();
                for _ in 0..rng.range(1, 4) {
                    bytes.extend(x86_modrm(&mut rng, arch.addr_bits() == 64));
                }
            }
        }
        0 | 1 => {
            kind = "random".to_string();
            let n = rng.range(0, 80) as usize;
            let n = if !arch.is_x86() && rng.chance(4, 5) { n & !3 } else { n };
            bytes = rng.bytes(n);
        }
        2 => {
            kind = "corpus".into();
            bytes = rng.pick(&corp).clone();
            if rng.chance(1, 2) {
                let at = address + bytes.len() as u64;
                bytes.extend(unit_from_forms(&mut rng, arch, at));
            }
        }
        3..=5 => {
            kind = "corpus-mutated".into();
            bytes = rng.pick(&corp).clone();
            let m = mutate(&mut rng, arch, &mut bytes);
            kind = format!("{}-{}", kind, m);
            if rng.chance(1, 3) {
                bytes.extend(rng.pick(&corp).clone());
            }
        }
        6 if rng.chance(1, 2) => {
            // exactly one translation window (64 bytes), control transfers packed at its end
            kind = "window64".into();
            let tail_units = rng.range(1, 4);
            let branch_unit = |rng: &mut Rng, at: u64| -> Vec<u8> {
                let s = match rng.below(4) {
                    0 if asm::has_cond(arch) => Slot::Cond {
                        cc: rng.below(asm::num_cc(arch) as u64) as u8,
                        a: rng.below(8) as u8,
                        b: rng.below(8) as u8,
                        target: 0,
                        short: rng.chance(1, 2),
                        delay: None,
                    },
                    1 => Slot::Jump { target: 0, short: rng.chance(1, 2), delay: None },
                    2 => Slot::Call { target: 0, delay: None },
                    _ => Slot::Term { kind: rng.below(3) as u8, a: rng.below(8) as u8, delay: None },
                };
                let mut b = asm::encode(arch, &s, at, at.wrapping_add(rng.below(64)) & !(arch.insn_align() - 1));
                if arch.is_mips() {
                    b.truncate(4); // the delay slot is whatever comes next
                }
                b
            };
            let mut tail: Vec<u8> = Vec::new();
            for _ in 0..tail_units {
                let at = address + 64 - 16 + tail.len() as u64;
                if rng.chance(3, 4) {
                    tail.extend(branch_unit(&mut rng, at));
                } else {
                    tail.extend(unit_from_forms(&mut rng, arch, at));
                }
            }
            tail.truncate(64);
            while bytes.len() + tail.len() < 64 {
                let at = address + bytes.len() as u64;
                let u = if rng.chance(1, 2) {
                    asm::encode(arch, &Slot::Pad(1), at, at)
                } else {
                    unit_from_forms(&mut rng, arch, at)
                };
                if bytes.len() + u.len() + tail.len() > 64 {
                    bytes.extend(asm::encode(arch, &Slot::Pad(1), at, at));
                } else {
                    bytes.extend(u);
                }
            }
            bytes.truncate(64 - tail.len());
            bytes.extend(tail);
            if rng.chance(1, 4) {
                // and sometimes a few bytes more or less than a full window
                let n = (bytes.len() as i64 + rng.range(0, 8) as i64 - 4).max(0) as usize;
                bytes.resize(n, 0);
            }
        }
        6 => {
            kind = "forms".into();
            for _ in 0..rng.range(1, 10) {
                let at = address + bytes.len() as u64;
                bytes.extend(unit_from_forms(&mut rng, arch, at));
            }
        }
        _ => {
            kind = "spliced".into();
            for _ in 0..rng.range(2, 8) {
                if rng.chance(1, 2) {
                    bytes.extend(rng.pick(&corp).clone());
                } else {
                    let at = address + bytes.len() as u64;
                    bytes.extend(unit_from_forms(&mut rng, arch, at));
                }
            }
            if rng.chance(2, 3) {
                let m = mutate(&mut rng, arch, &mut bytes);
                kind = format!("{}-{}", kind, m);
            }
        }
    }
    let mut function = rng.chance(1, 4);
    if rng.chance(1, 3000) {
        // rarely: a function of thousands of basic blocks (a chain of jumps to the next
        // instruction), far more than any bound a translator might assume
        kind = "long-chain".into();
        function = true;
        bytes.clear();
        let n = *rng.pick(&[300u64, 1500, 4500, 9000]);
        for _ in 0..n {
            let at = address + bytes.len() as u64;
            let len = asm::slot_len(arch, &Slot::Jump { target: 0, short: true, delay: None }) as u64;
            bytes.extend(asm::encode(arch, &Slot::Jump { target: 0, short: true, delay: None }, at, at + len));
        }
        bytes.extend(asm::encode(arch, &Slot::Term { kind: 0, a: 0, delay: None }, address + bytes.len() as u64, 0));
    }
    let mut holes = Vec::new();
    let mut faults = SeamFaults::default();
    let mut window_cap = None;
    let mut manual_edges = Vec::new();
    if function && kind == "long-chain" {
        // plain image, no seam faults: the size is the point
    } else if function {
        // a longer image so that several windows are read
        if rng.chance(1, 2) {
            for _ in 0..rng.range(4, 30) {
                let at = address + bytes.len() as u64;
                bytes.extend(unit_from_forms(&mut rng, arch, at));
            }
        }
        let n = bytes.len().max(1);
        if rng.chance(1, 3) {
            for _ in 0..rng.range(1, 3) {
                holes.push((rng.usize_below(n), rng.range(1, 9) as usize));
            }
        }
        match rng.below(4) {
            0 => {
                faults.unstable_from_call = Some(rng.range(1, 4) as usize);
                for _ in 0..rng.range(1, 6) {
                    faults.unstable_xor.push((address + rng.below(n as u64), 1 << rng.below(8)));
                }
            }
            1 => {
                faults.short_read_every = Some(rng.range(1, 3) as usize);
                faults.short_read_max = rng.range(0, 40) as usize;
            }
            _ => {}
        }
        if rng.chance(1, 3) {
            window_cap = Some(if arch.is_x86() { rng.range(1, 64) as usize } else { (rng.range(1, 16) * 4) as usize });
        }
        if rng.chance(1, 4) {
            for _ in 0..rng.range(1, 3) {
                let a = align as usize;
                manual_edges.push((rng.usize_below(n + 8) / a * a, rng.usize_below(n + 8) / a * a, rng.chance(1, 2)));
            }
        }
    }
    Case {
        arch,
        intrinsics,
        address,
        mode: if function { "function" } else { "block" }.into(),
        bytes: asm::hex(&bytes),
        kind,
        holes,
        faults,
        window_cap,
        manual_edges,
    }
}

// ---------------------------------------------------------------- minimisation

pub fn minimise(case: &Case, class: &str, signature: &str) -> Case {
    let same = |c: &Case| matches!(execute(c).violation, Some(v) if v.class == class && v.signature == signature);
    let unit = if case.arch.is_x86() { 1 } else { 4 };
    let bytes = asm::unhex(&case.bytes);
    let mut best = case.clone();
    if case.mode == "block" {
        // dropping leading units moves the remaining bytes: keep the address in step
        let units: Vec<Vec<u8>> = bytes.chunks(unit).map(|c| c.to_vec()).collect();
        // try suffixes first (drop a prefix, advance the address)
        let mut start = 0;
        while start + 1 < units.len() {
            let mut cand = best.clone();
            let rest: Vec<u8> = units[start + 1..].concat();
            cand.bytes = asm::hex(&rest);
            cand.address = case.address + ((start + 1) * unit) as u64;
            if same(&cand) {
                best = cand;
                start += 1;
            } else {
                break;
            }
        }
        // then drop from the end
        loop {
            let b = asm::unhex(&best.bytes);
            if b.len() <= unit {
                break;
            }
            let mut cand = best.clone();
            cand.bytes = asm::hex(&b[..b.len() - unit]);
            if same(&cand) {
                best = cand;
            } else {
                break;
            }
        }
    } else {
        let mut cand = best.clone();
        cand.manual_edges.clear();
        if same(&cand) {
            best = cand;
        }
        let mut cand = best.clone();
        cand.holes.clear();
        if same(&cand) {
            best = cand;
        }
        let mut cand = best.clone();
        cand.faults = SeamFaults::default();
        if same(&cand) {
            best = cand;
        }
        let mut cand = best.clone();
        cand.window_cap = None;
        if same(&cand) {
            best = cand;
        }
        // shortest failing prefix by bisection (a long image would make unit-by-unit
        // truncation take hours)
        let full = asm::unhex(&best.bytes);
        let (mut lo, mut hi) = (0usize, full.len() / unit);
        while hi - lo > 1 {
            let mid = (lo + hi) / 2;
            let mut cand = best.clone();
            cand.bytes = asm::hex(&full[..mid * unit]);
            if same(&cand) {
                hi = mid;
            } else {
                lo = mid;
            }
        }
        if hi * unit < full.len() {
            let mut cand = best.clone();
            cand.bytes = asm::hex(&full[..hi * unit]);
            if same(&cand) {
                best = cand;
            }
        }
    }
    // zero what can be zeroed (bounded effort)
    let mut b = asm::unhex(&best.bytes);
    let mut budget = 200;
    for i in 0..b.len() {
        if budget == 0 {
            break;
        }
        if b[i] != 0 {
            budget -= 1;
            let old = b[i];
            b[i] = 0;
            let mut cand = best.clone();
            cand.bytes = asm::hex(&b);
            if same(&cand) {
                best = cand;
            } else {
                b[i] = old;
            }
        }
    }
    best
}
