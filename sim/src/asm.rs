//! Tiny assemblers for the instruction forms of DESIGN Appendix A, plus the
//! per-architecture glue (translator, architecture object, endianness).

use falcon::architecture::{self, Architecture};
use falcon::translator::{self, Translator};
use falcon::RC;
use serde::{Deserialize, Serialize};

#[derive(Clone, Copy, Debug, PartialEq, Eq, PartialOrd, Ord, Serialize, Deserialize)]
pub enum Arch {
    X86,
    Amd64,
    Mips,
    Mipsel,
    Ppc,
    AArch64,
    AArch64Eb,
}

pub const ALL_ARCHS: [Arch; 7] = [
    Arch::X86,
    Arch::Amd64,
    Arch::Mips,
    Arch::Mipsel,
    Arch::Ppc,
    Arch::AArch64,
    Arch::AArch64Eb,
];

impl Arch {
    pub fn name(&self) -> &'static str {
        match self {
            Arch::X86 => "x86",
            Arch::Amd64 => "amd64",
            Arch::Mips => "mips",
            Arch::Mipsel => "mipsel",
            Arch::Ppc => "ppc",
            Arch::AArch64 => "aarch64",
            Arch::AArch64Eb => "aarch64eb",
        }
    }
    pub fn family(&self) -> &'static str {
        match self {
            Arch::X86 | Arch::Amd64 => "x86",
            Arch::Mips | Arch::Mipsel => "mips",
            Arch::Ppc => "ppc",
            Arch::AArch64 | Arch::AArch64Eb => "aarch64",
        }
    }
    pub fn translator(&self) -> Box<dyn Translator> {
        match self {
            Arch::X86 => Box::new(translator::x86::X86::new()),
            Arch::Amd64 => Box::new(translator::x86::Amd64::new()),
            Arch::Mips => Box::new(translator::mips::Mips::new()),
            Arch::Mipsel => Box::new(translator::mips::Mipsel::new()),
            Arch::Ppc => Box::new(translator::ppc::Ppc::new()),
            Arch::AArch64 => Box::new(translator::aarch64::AArch64::new()),
            Arch::AArch64Eb => Box::new(translator::aarch64::AArch64Eb::new()),
        }
    }
    pub fn architecture(&self) -> RC<dyn Architecture> {
        match self {
            Arch::X86 => RC::new(architecture::X86::new()),
            Arch::Amd64 => RC::new(architecture::Amd64::new()),
            Arch::Mips => RC::new(architecture::Mips::new()),
            Arch::Mipsel => RC::new(architecture::Mipsel::new()),
            Arch::Ppc => RC::new(architecture::Ppc::new()),
            Arch::AArch64 => RC::new(architecture::AArch64::new()),
            Arch::AArch64Eb => RC::new(architecture::AArch64Eb::new()),
        }
    }
    /// endianness of data memory for this architecture
    pub fn big_endian(&self) -> bool {
        matches!(self, Arch::Mips | Arch::Ppc | Arch::AArch64Eb)
    }
    pub fn is_x86(&self) -> bool {
        matches!(self, Arch::X86 | Arch::Amd64)
    }
    pub fn is_mips(&self) -> bool {
        matches!(self, Arch::Mips | Arch::Mipsel)
    }
    /// address bits of the machine
    pub fn addr_bits(&self) -> usize {
        match self {
            Arch::Amd64 | Arch::AArch64 | Arch::AArch64Eb => 64,
            _ => 32,
        }
    }
    pub fn insn_align(&self) -> u64 {
        if self.is_x86() {
            1
        } else {
            4
        }
    }
}

/// One slot of a generated machine-code program.
#[derive(Clone, Debug, PartialEq, Eq, Serialize, Deserialize)]
pub enum Slot {
    /// straight-line instruction: form index and operand seeds
    Op { form: u8, a: u8, b: u8, c: u8, imm: u32 },
    /// padding: x86 canonical nop of n bytes (1..=9); elsewhere one nop
    Pad(u8),
    /// conditional direct branch to slot `target`
    Cond { cc: u8, a: u8, b: u8, target: usize, short: bool, delay: Option<Box<Slot>> },
    /// unconditional direct jump to slot `target`
    Jump { target: usize, short: bool, delay: Option<Box<Slot>> },
    /// direct call-like instruction (falls through to the next slot)
    Call { target: usize, delay: Option<Box<Slot>> },
    /// indirect jump / return (terminator)
    Term { kind: u8, a: u8, delay: Option<Box<Slot>> },
    /// raw bytes (hex)
    Raw(String),
}

pub fn hex(b: &[u8]) -> String {
    b.iter().map(|x| format!("{:02x}", x)).collect()
}
pub fn unhex(s: &str) -> Vec<u8> {
    (0..s.len() / 2)
        .map(|i| u8::from_str_radix(&s[2 * i..2 * i + 2], 16).unwrap_or(0))
        .collect()
}

// ------------------------------------------------------------------ x86

const X86_SCRATCH: [u8; 5] = [0, 1, 2, 6, 7]; // eax ecx edx esi edi
const X86_BASE: u8 = 3; // ebx
const X86_NOPS: [&[u8]; 9] = [
    &[0x90],
    &[0x66, 0x90],
    &[0x0f, 0x1f, 0x00],
    &[0x0f, 0x1f, 0x40, 0x00],
    &[0x0f, 0x1f, 0x44, 0x00, 0x00],
    &[0x66, 0x0f, 0x1f, 0x44, 0x00, 0x00],
    &[0x0f, 0x1f, 0x80, 0x00, 0x00, 0x00, 0x00],
    &[0x0f, 0x1f, 0x84, 0x00, 0x00, 0x00, 0x00, 0x00],
    &[0x66, 0x0f, 0x1f, 0x84, 0x00, 0x00, 0x00, 0x00, 0x00],
];
pub const X86_FORMS: u8 = 15;

fn x86_scratch(i: u8) -> u8 {
    X86_SCRATCH[i as usize % X86_SCRATCH.len()]
}

fn x86_op(form: u8, a: u8, b: u8, c: u8, imm: u32) -> Vec<u8> {
    let (ra, rb) = (x86_scratch(a), x86_scratch(b));
    let d8 = ((imm % 24) * 4) as u8; // displacement inside the data zone
    match form % X86_FORMS {
        0 => {
            let mut v = vec![0xb8 + ra];
            v.extend_from_slice(&imm.to_le_bytes());
            v
        }
        1 => {
            let opc = [0x01u8, 0x29, 0x31, 0x21, 0x09, 0x39, 0x85][c as usize % 7];
            vec![opc, 0xc0 | (rb << 3) | ra]
        }
        2 => {
            let m = [0xc0u8, 0xe8, 0xf8][c as usize % 3];
            vec![0x83, m + ra, imm as u8]
        }
        3 => vec![0xff, if c % 2 == 0 { 0xc0 } else { 0xc8 } + ra],
        4 => vec![0x89, 0x40 | (ra << 3) | X86_BASE, d8],
        5 => vec![0x8b, 0x40 | (ra << 3) | X86_BASE, d8],
        6 => vec![0x8d, 0x40 | (ra << 3) | X86_BASE, d8],
        7 => vec![0x0f, 0xaf, 0xc0 | (ra << 3) | rb],
        8 => vec![0xc1, 0xe0 + ra, (imm % 32) as u8],
        9 => vec![0x0f, 0xb6, 0xc0 | (ra << 3) | (b % 3)],
        10 => {
            if ra == 0 {
                vec![0x91]
            } else {
                vec![0x90 + ra]
            }
        }
        11 => vec![0x0f, 0x40 + (c % 16), 0xc0 | (ra << 3) | rb],
        12 => vec![0x0f, 0x90 + (c % 16), 0xc0 + (a % 3)],
        13 => vec![0x50 + ra],
        _ => vec![0x58 + ra],
    }
}

// ------------------------------------------------------------------ mips

const MIPS_SCRATCH: [u32; 6] = [8, 9, 10, 11, 2, 4];
const MIPS_BASE: u32 = 16;
pub const MIPS_FORMS: u8 = 9;

fn mips_scratch(i: u8) -> u32 {
    MIPS_SCRATCH[i as usize % MIPS_SCRATCH.len()]
}

fn mips_op(form: u8, a: u8, b: u8, c: u8, imm: u32) -> u32 {
    let (ra, rb, rc) = (mips_scratch(a), mips_scratch(b), mips_scratch(c));
    let i16 = imm & 0xffff;
    match form % MIPS_FORMS {
        0 => 0x2400_0000 | (rb << 21) | (ra << 16) | i16,
        1 => {
            let f = [0x21u32, 0x23, 0x24, 0x25, 0x26, 0x2a, 0x2b][(imm % 7) as usize];
            (rb << 21) | (rc << 16) | (ra << 11) | f
        }
        2 => {
            let o = [0x34u32, 0x30, 0x38][(imm >> 16) as usize % 3];
            (o << 24) | (rb << 21) | (ra << 16) | i16
        }
        3 => 0x3c00_0000 | (ra << 16) | i16,
        4 => {
            let f = [0u32, 2, 3][(imm >> 8) as usize % 3];
            let w = (rb << 16) | (ra << 11) | ((imm % 32) << 6) | f;
            if w == 0 {
                0x0000_0040 | (ra << 11) | (rb << 16)
            } else {
                w
            }
        }
        5 => 0,
        6 => {
            // lw/sw at word-aligned offsets, lb/sb anywhere inside the data zone
            let k = (imm >> 8) % 4;
            let o = [0x8cu32, 0xac, 0x80, 0xa0][k as usize];
            let off = if k < 2 { (imm % 24) * 4 } else { imm % 96 };
            (o << 24) | (MIPS_BASE << 21) | (ra << 16) | off
        }
        7 => (ra << 21) | (rb << 16) | 0x18,
        _ => (ra << 11) | 0x12,
    }
}

// ------------------------------------------------------------------ ppc

const PPC_SCRATCH: [u32; 6] = [3, 4, 5, 6, 7, 8];
const PPC_BASE: u32 = 31;
pub const PPC_FORMS: u8 = 12;

fn ppc_scratch(i: u8) -> u32 {
    PPC_SCRATCH[i as usize % PPC_SCRATCH.len()]
}

fn ppc_op(form: u8, a: u8, b: u8, c: u8, imm: u32) -> u32 {
    let (ra, rb, rc) = (ppc_scratch(a), ppc_scratch(b), ppc_scratch(c));
    let i16 = imm & 0xffff;
    match form % PPC_FORMS {
        0 => (14 << 26) | (ra << 21) | (rb << 16) | i16,
        1 => (15 << 26) | (ra << 21) | (rb << 16) | i16,
        2 => (31 << 26) | (ra << 21) | (rb << 16) | (rc << 11) | (266 << 1),
        3 => (31 << 26) | (ra << 21) | (rb << 16) | (rc << 11) | (40 << 1),
        4 => (31 << 26) | (ra << 21) | (rb << 16) | (202 << 1),
        5 => (31 << 26) | (rb << 21) | (ra << 16) | (rb << 11) | (444 << 1),
        6 => {
            let (sh, mb, me) = (imm % 32, (imm >> 5) % 32, (imm >> 10) % 32);
            (21 << 26) | (rb << 21) | (ra << 16) | (sh << 11) | (mb << 6) | (me << 1)
        }
        7 => (31 << 26) | (rb << 21) | (ra << 16) | ((imm % 32) << 11) | (824 << 1),
        8 => (32 << 26) | (ra << 21) | (PPC_BASE << 16) | ((imm % 24) * 4),
        9 => (36 << 26) | (ra << 21) | (PPC_BASE << 16) | ((imm % 24) * 4),
        10 => (34 << 26) | (ra << 21) | (PPC_BASE << 16) | (imm % 96),
        _ => 0x6000_0000,
    }
}

// ------------------------------------------------------------------ aarch64

const A64_BASE: u32 = 19;
pub const A64_FORMS: u8 = 13;

fn a64_scratch(i: u8) -> u32 {
    (i % 6) as u32
}

fn a64_op(form: u8, a: u8, b: u8, c: u8, imm: u32) -> u32 {
    let (rd, rn, rm) = (a64_scratch(a), a64_scratch(b), a64_scratch(c));
    let i12 = imm & 0xfff;
    match form % A64_FORMS {
        0 => {
            let o = [0x91u32, 0xd1, 0x11, 0x51][(imm >> 12) as usize % 4];
            (o << 24) | (i12 << 10) | (rn << 5) | rd
        }
        1 => {
            let o = [0xb1u32, 0xf1][(imm >> 12) as usize % 2];
            (o << 24) | (i12 << 10) | (rn << 5) | rd
        }
        2 => {
            let o = [0x8bu32, 0xcb, 0xeb][(imm >> 12) as usize % 3];
            (o << 24) | (rm << 16) | (rn << 5) | rd
        }
        3 => 0xd280_0000 | ((imm & 0xffff) << 5) | rd,
        4 => 0xaa00_03e0 | (rm << 16) | rd,
        5 => 0xf940_0000 | ((imm % 12) << 10) | (A64_BASE << 5) | rd,
        6 => 0xf900_0000 | ((imm % 12) << 10) | (A64_BASE << 5) | rd,
        7 => 0xb940_0000 | ((imm % 24) << 10) | (A64_BASE << 5) | rd,
        8 => 0x3940_0000 | ((imm % 96) << 10) | (A64_BASE << 5) | rd,
        9 => 0x3900_0000 | ((imm % 96) << 10) | (A64_BASE << 5) | rd,
        10 => 0xa940_0000 | ((imm % 5) << 15) | (rm << 10) | (A64_BASE << 5) | rd,
        11 => 0xa900_0000 | ((imm % 5) << 15) | (rm << 10) | (A64_BASE << 5) | rd,
        _ => 0xd503_201f,
    }
}

// ------------------------------------------------------------------ common

fn word(arch: Arch, w: u32) -> Vec<u8> {
    match arch {
        Arch::Mips | Arch::Ppc => w.to_be_bytes().to_vec(),
        _ => w.to_le_bytes().to_vec(),
    }
}

pub fn num_forms(arch: Arch) -> u8 {
    match arch.family() {
        "x86" => X86_FORMS,
        "mips" => MIPS_FORMS,
        "ppc" => PPC_FORMS,
        _ => A64_FORMS,
    }
}

/// does this architecture's assembler have conditional branches the pinned
/// lifter accepts? (PPC: none, see Appendix A)
pub fn has_cond(arch: Arch) -> bool {
    arch.family() != "ppc"
}

pub fn num_cc(arch: Arch) -> u8 {
    match arch.family() {
        "x86" => 19, // 16 jcc + loop + jecxz (e3) + jcxz/jecxz with address-size prefix (67 e3)
        "mips" => 6,
        "ppc" => 0,
        _ => 14 + 4, // b.cond x14, cbz, cbnz, tbz, tbnz
    }
}

/// length in bytes of a slot (independent of addresses)
pub fn slot_len(arch: Arch, s: &Slot) -> usize {
    if arch.is_x86() {
        match s {
            Slot::Op { form, a, b, c, imm } => x86_op(*form, *a, *b, *c, *imm).len(),
            Slot::Pad(n) => (*n as usize).clamp(1, 9),
            Slot::Cond { cc, short, .. } => {
                match *cc % 19 {
                    16 => 2,
                    17 => {
                        if arch == Arch::Amd64 {
                            3
                        } else {
                            2
                        }
                    }
                    18 => 3,
                    _ if *short => 2,
                    _ => 6,
                }
            }
            Slot::Jump { short, .. } => {
                if *short {
                    2
                } else {
                    5
                }
            }
            Slot::Call { .. } => 5,
            Slot::Term { kind, .. } => {
                if kind % 3 == 2 {
                    2
                } else {
                    1
                }
            }
            Slot::Raw(h) => h.len() / 2,
        }
    } else {
        match s {
            Slot::Raw(h) => h.len() / 2,
            Slot::Cond { .. } | Slot::Jump { .. } | Slot::Call { .. } | Slot::Term { .. } => {
                if arch.is_mips() {
                    8
                } else {
                    4
                }
            }
            _ => 4,
        }
    }
}

/// x86: can this branch be encoded in its short form?
pub fn x86_short_fits(addr: u64, target: u64) -> bool {
    x86_rel8_fits(addr, 2, target)
}

pub fn x86_rel8_fits(addr: u64, insn_len: u64, target: u64) -> bool {
    let d = target.wrapping_sub(addr.wrapping_add(insn_len)) as i64;
    (-128..=127).contains(&d)
}

/// Encode a slot placed at `addr`; `target` is the address of the target slot.
pub fn encode(arch: Arch, s: &Slot, addr: u64, target: u64) -> Vec<u8> {
    match arch.family() {
        "x86" => match s {
            Slot::Op { form, a, b, c, imm } => x86_op(*form, *a, *b, *c, *imm),
            Slot::Pad(n) => X86_NOPS[(*n as usize).clamp(1, 9) - 1].to_vec(),
            Slot::Cond { cc, short, .. } => {
                let cc = cc % 19;
                if cc == 16 {
                    let d = target.wrapping_sub(addr + 2) as u8;
                    vec![0xe2, d]
                } else if cc == 17 && arch != Arch::Amd64 {
                    // jecxz (plain e3 is jrcxz in 64-bit mode, which the lifter does not accept)
                    vec![0xe3, target.wrapping_sub(addr + 2) as u8]
                } else if cc >= 17 {
                    // 32-bit mode: jcxz; 64-bit mode: jecxz
                    vec![0x67, 0xe3, target.wrapping_sub(addr + 3) as u8]
                } else if *short {
                    let d = target.wrapping_sub(addr + 2) as u8;
                    vec![0x70 + cc, d]
                } else {
                    let d = target.wrapping_sub(addr + 6) as u32;
                    let mut v = vec![0x0f, 0x80 + cc];
                    v.extend_from_slice(&d.to_le_bytes());
                    v
                }
            }
            Slot::Jump { short, .. } => {
                if *short {
                    vec![0xeb, target.wrapping_sub(addr + 2) as u8]
                } else {
                    let mut v = vec![0xe9];
                    v.extend_from_slice(&(target.wrapping_sub(addr + 5) as u32).to_le_bytes());
                    v
                }
            }
            Slot::Call { .. } => {
                let mut v = vec![0xe8];
                v.extend_from_slice(&(target.wrapping_sub(addr + 5) as u32).to_le_bytes());
                v
            }
            Slot::Term { kind, a, .. } => match kind % 3 {
                0 => vec![0xc3],
                1 => vec![0xf4],
                _ => vec![0xff, 0xe0 + x86_scratch(*a)],
            },
            Slot::Raw(h) => unhex(h),
        },
        "mips" => {
            let delay_word = |d: &Option<Box<Slot>>| -> Vec<u8> {
                match d.as_deref() {
                    Some(Slot::Op { form, a, b, c, imm }) => {
                        word(arch, mips_op(*form, *a, *b, *c, *imm))
                    }
                    Some(Slot::Raw(h)) => {
                        let mut v = unhex(h);
                        v.resize(4, 0);
                        v
                    }
                    _ => word(arch, 0),
                }
            };
            match s {
                Slot::Op { form, a, b, c, imm } => word(arch, mips_op(*form, *a, *b, *c, *imm)),
                Slot::Pad(_) => word(arch, 0),
                Slot::Cond { cc, a, b, delay, .. } => {
                    let off = ((target.wrapping_sub(addr + 4) as i64) >> 2) as u32 & 0xffff;
                    let (rs, rt) = (mips_scratch(*a), mips_scratch(*b));
                    let w = match cc % 6 {
                        0 => 0x1000_0000 | (rs << 21) | (rt << 16) | off,
                        1 => 0x1400_0000 | (rs << 21) | (rt << 16) | off,
                        2 => 0x1800_0000 | (rs << 21) | off,
                        3 => 0x1c00_0000 | (rs << 21) | off,
                        4 => 0x0400_0000 | (rs << 21) | off,
                        _ => 0x0401_0000 | (rs << 21) | off,
                    };
                    // beq $x,$x is decoded as the unconditional alias `b`: keep operands distinct
                    let w = if cc % 6 == 0 && rs == rt {
                        0x1000_0000 | (rs << 21) | (((rt % 4) + 12) << 16) | off
                    } else {
                        w
                    };
                    let mut v = word(arch, w);
                    v.extend(delay_word(delay));
                    v
                }
                Slot::Jump { delay, .. } => {
                    let mut v = word(arch, 0x0800_0000 | ((target >> 2) as u32 & 0x03ff_ffff));
                    v.extend(delay_word(delay));
                    v
                }
                Slot::Call { delay, .. } => {
                    let mut v = word(arch, 0x0c00_0000 | ((target >> 2) as u32 & 0x03ff_ffff));
                    v.extend(delay_word(delay));
                    v
                }
                Slot::Term { kind, a, delay } => {
                    let r = if kind % 2 == 0 { 31 } else { mips_scratch(*a) };
                    let mut v = word(arch, (r << 21) | 8);
                    v.extend(delay_word(delay));
                    v
                }
                Slot::Raw(h) => unhex(h),
            }
        }
        "ppc" => match s {
            Slot::Op { form, a, b, c, imm } => word(arch, ppc_op(*form, *a, *b, *c, *imm)),
            Slot::Pad(_) => word(arch, 0x6000_0000),
            Slot::Cond { .. } => word(arch, 0x6000_0000),
            Slot::Jump { .. } => word(
                arch,
                (18 << 26) | (target.wrapping_sub(addr) as u32 & 0x03ff_fffc),
            ),
            Slot::Call { .. } => word(
                arch,
                (18 << 26) | (target.wrapping_sub(addr) as u32 & 0x03ff_fffc) | 1,
            ),
            Slot::Term { .. } => word(arch, 0x4e80_0420),
            Slot::Raw(h) => unhex(h),
        },
        _ => match s {
            Slot::Op { form, a, b, c, imm } => word(arch, a64_op(*form, *a, *b, *c, *imm)),
            Slot::Pad(_) => word(arch, 0xd503_201f),
            Slot::Cond { cc, a, b, .. } => {
                let off = (target.wrapping_sub(addr) as i64) >> 2;
                let rt = a64_scratch(*a);
                let cc = cc % 18;
                let w = if cc < 14 {
                    0x5400_0000 | ((off as u32 & 0x7ffff) << 5) | cc as u32
                } else if cc == 14 {
                    0xb400_0000 | ((off as u32 & 0x7ffff) << 5) | rt
                } else if cc == 15 {
                    0x3500_0000 | ((off as u32 & 0x7ffff) << 5) | rt
                } else {
                    let bit = (*b as u32) % 64;
                    let base = if cc == 16 { 0x3600_0000 } else { 0x3700_0000 };
                    base | ((bit >> 5) << 31)
                        | ((bit & 31) << 19)
                        | ((off as u32 & 0x3fff) << 5)
                        | rt
                };
                word(arch, w)
            }
            Slot::Jump { .. } => {
                let off = (target.wrapping_sub(addr) as i64) >> 2;
                word(arch, 0x1400_0000 | (off as u32 & 0x03ff_ffff))
            }
            Slot::Call { .. } => {
                let off = (target.wrapping_sub(addr) as i64) >> 2;
                word(arch, 0x9400_0000 | (off as u32 & 0x03ff_ffff))
            }
            Slot::Term { kind, a, .. } => {
                if kind % 2 == 0 {
                    word(arch, 0xd65f_03c0)
                } else {
                    word(arch, 0xd61f_0000 | (a64_scratch(*a) << 5))
                }
            }
            Slot::Raw(h) => unhex(h),
        },
    }
}

/// architectural scalars (name, bits) the forms above read or write, as the
/// pinned lifters name them
pub fn reg_names(arch: Arch) -> Vec<(&'static str, usize)> {
    match arch {
        Arch::X86 => vec![
            ("CF", 1), ("OF", 1), ("PF", 1), ("SF", 1), ("ZF", 1), ("DF", 1), ("eax", 32), ("ebx", 32),
            ("ecx", 32), ("edx", 32), ("esi", 32), ("edi", 32), ("esp", 32), ("ebp", 32),
        ],
        Arch::Amd64 => vec![
            ("CF", 1), ("OF", 1), ("PF", 1), ("SF", 1), ("ZF", 1), ("DF", 1), ("rax", 64), ("rbx", 64),
            ("rcx", 64), ("rdx", 64), ("rsi", 64), ("rdi", 64), ("rsp", 64), ("rbp", 64),
        ],
        Arch::Mips | Arch::Mipsel => vec![
            ("$a0", 32), ("$hi", 32), ("$lo", 32), ("$ra", 32), ("$s0", 32), ("$t0", 32), ("$t1", 32),
            ("$t2", 32), ("$t3", 32), ("$t4", 32), ("$t5", 32), ("$t6", 32), ("$t7", 32), ("$v0", 32), ("$zero", 32),
        ],
        Arch::Ppc => vec![
            ("carry", 1), ("ctr", 32), ("lr", 32), ("r3", 32), ("r4", 32), ("r5", 32), ("r6", 32),
            ("r7", 32), ("r8", 32), ("r31", 32),
        ],
        Arch::AArch64 | Arch::AArch64Eb => vec![
            ("c", 1), ("n", 1), ("v", 1), ("z", 1), ("x0", 64), ("x1", 64), ("x2", 64), ("x3", 64),
            ("x4", 64), ("x5", 64), ("x19", 64), ("x30", 64), ("sp", 64),
        ],
    }
}

/// the register every load/store form uses as base, and the stack pointer
pub fn base_reg(arch: Arch) -> &'static str {
    match arch {
        Arch::X86 => "ebx",
        Arch::Amd64 => "rbx",
        Arch::Mips | Arch::Mipsel => "$s0",
        Arch::Ppc => "r31",
        _ => "x19",
    }
}
pub fn stack_reg(arch: Arch) -> Option<&'static str> {
    match arch {
        Arch::X86 => Some("esp"),
        Arch::Amd64 => Some("rsp"),
        _ => None,
    }
}
