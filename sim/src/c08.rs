//! cow-sim, property C08: K owners ("parties") of copy-on-write paged memory,
//! a scripted interleaving of their operations, fork/drop/rollback faults at
//! operation boundaries and (through hook H1) in the middle of multi-cell
//! operations, each party checked against its own private byte-model shadow.

use crate::bytemodel::{ByteModel, PermExpect};
use crate::harness::{catch, panic_site, Counters, Violation};
use crate::ilspec::ExprSpec;
use crate::rng::{LogHash, Rng};
use crate::val::{self, Scalars, Val};
use falcon::architecture::Endian;
use falcon::il;
use falcon::memory::backing;
use falcon::memory::paged::{Memory, MemoryCell, PAGE_SIZE};
use falcon::memory::{MemoryPermissions, Value};
use falcon::RC;
use num_bigint::BigUint;
use num_traits::{Num, ToPrimitive};
use serde::{Deserialize, Serialize};
use std::cell::RefCell;
use std::collections::{BTreeMap, BTreeSet};
use std::rc::Rc;

// ---------------------------------------------------------------- script types

#[derive(Clone, Debug, Serialize, Deserialize, PartialEq, Eq)]
pub struct Region {
    pub address: u64,
    /// hex bytes
    pub data: String,
    pub perms: u32,
}

#[derive(Clone, Debug, Serialize, Deserialize, PartialEq, Eq)]
pub struct Root {
    pub id: usize,
    pub big_endian: bool,
    /// index into `backings`, or none
    pub backing: Option<usize>,
    /// the backing object was created with the opposite endianness of the memory (legal:
    /// the paged memory reads the backing byte by byte)
    #[serde(default)]
    pub backing_other_endian: bool,
}

#[derive(Clone, Debug, Serialize, Deserialize, PartialEq, Eq)]
pub struct Config {
    /// "constant" | "expression"
    pub vtype: String,
    pub roots: Vec<Root>,
    pub backings: Vec<Vec<Region>>,
    /// valuation of the scalars used in stored expressions: (name, hex, bits)
    pub scalars: Vec<(String, String, usize)>,
    /// address zones (start, len) forming the universe swept for leaks
    pub zones: Vec<(u64, u64)>,
    /// true: no fork/drop/mid-op fault in this run (reported separately)
    pub fault_free: bool,
}

#[derive(Clone, Debug, Serialize, Deserialize, PartialEq, Eq)]
pub enum Action {
    Store { p: usize, addr: u64, val: ExprSpec },
    Load { p: usize, addr: u64, bits: usize },
    SetPerm { p: usize, addr: u64, len: u64, perms: u32 },
    Perm { p: usize, addr: u64 },
    Fork { p: usize, new: usize },
    Drop { p: usize },
    Compare { a: usize, b: usize },
    Sweep,
    /// replace the party's backing (index into `backings`, or none)
    SetBacking {
        p: usize,
        backing: Option<usize>,
        #[serde(default)]
        other_endian: bool,
    },
    /// read-modify-write without the modify: load `bits` at `from` and, if present, store
    /// the loaded value at `to` (from == to re-stores what is already there)
    Copy { p: usize, from: u64, to: u64, bits: usize },
    /// arm a fault that fires at the k-th simulation point inside the next
    /// mutating operation: kind "drop" | "fork" (of `victim`, into `new`)
    Arm { kind: String, k: usize, victim: usize, new: usize },
}

#[derive(Clone, Debug, Serialize, Deserialize, PartialEq, Eq)]
pub struct Script {
    pub config: Config,
    pub actions: Vec<Action>,
}

// ---------------------------------------------------------------- value seam

pub trait SimValue: Value + 'static {
    const NAME: &'static str;
    fn from_spec(spec: &ExprSpec) -> Result<Self, String>;
    fn evaluate(&self, scalars: &Scalars) -> Result<Val, String>;
    /// the same byte through the memory's other public reader, where there is one: the
    /// `TranslationMemory` view lifters read code through (constant-valued memories only)
    fn stream_byte(_mem: &Memory<Self>, _address: u64) -> Option<Option<u8>> {
        None
    }
}

impl SimValue for il::Constant {
    const NAME: &'static str = "constant";
    fn from_spec(spec: &ExprSpec) -> Result<Self, String> {
        match spec {
            ExprSpec::C(h, b) => Ok(il::Constant::new_big(
                BigUint::from_str_radix(h, 16).map_err(|e| e.to_string())?,
                *b,
            )),
            _ => Err("constant memory needs constant values".into()),
        }
    }
    fn evaluate(&self, _: &Scalars) -> Result<Val, String> {
        Ok(Val::from_constant(self))
    }
    fn stream_byte(mem: &Memory<Self>, address: u64) -> Option<Option<u8>> {
        Some(falcon::translator::TranslationMemory::get_u8(mem, address))
    }
}

impl SimValue for il::Expression {
    const NAME: &'static str = "expression";
    fn from_spec(spec: &ExprSpec) -> Result<Self, String> {
        spec.build()
    }
    fn evaluate(&self, scalars: &Scalars) -> Result<Val, String> {
        val::eval(self, scalars).map_err(|e| format!("{:?}", e))
    }
}

// ---------------------------------------------------------------- the pool

struct Party<V: SimValue> {
    mem: Memory<V>,
    shadow: ByteModel,
    /// changes on every mutation
    content: u64,
    /// (parent id, parent's content id at fork, own content id at fork)
    pristine: Option<(usize, u64, u64)>,
    wrote_since_fork: bool,
}

struct Pool<V: SimValue> {
    parties: BTreeMap<usize, Party<V>>,
    next_content: u64,
}

impl<V: SimValue> Pool<V> {
    fn fresh(&mut self) -> u64 {
        self.next_content += 1;
        self.next_content
    }
    fn fork(&mut self, p: usize, new: usize) -> bool {
        if self.parties.contains_key(&new) {
            return false;
        }
        let c = self.fresh();
        let child = match self.parties.get(&p) {
            Some(src) => Party {
                mem: src.mem.clone(),
                shadow: src.shadow.clone(),
                content: c,
                pristine: Some((p, src.content, c)),
                wrote_since_fork: false,
            },
            None => return false,
        };
        self.parties.insert(new, child);
        true
    }
    fn drop_party(&mut self, p: usize) -> bool {
        self.parties.remove(&p).is_some()
    }
}

struct Armed {
    kind: String,
    k: usize,
    victim: usize,
    new: usize,
}

struct MidOp<V: SimValue> {
    pool: Rc<RefCell<Pool<V>>>,
    armed: Option<Armed>,
    /// counting points of the current operation
    active: bool,
    points: usize,
    fired: Option<String>,
    total_points: u64,
}

thread_local! {
    static HOOK: RefCell<Option<Box<dyn FnMut(&'static str)>>> = const { RefCell::new(None) };
}

fn hook_trampoline(site: &'static str) {
    HOOK.with(|h| {
        // a re-entrant point (none exists today) is ignored rather than panicking
        if let Ok(mut g) = h.try_borrow_mut() {
            if let Some(f) = g.as_mut() {
                f(site);
            }
        }
    });
}

// ---------------------------------------------------------------- execution

pub struct Outcome {
    pub violation: Option<Violation>,
    pub counters: Counters,
    pub states: BTreeSet<String>,
    pub log: LogHash,
    pub ticks: u64,
}

fn perms_of(bits: u32) -> MemoryPermissions {
    MemoryPermissions::from_bits_truncate(bits)
}

fn endian_of(big: bool) -> Endian {
    if big {
        Endian::Big
    } else {
        Endian::Little
    }
}

fn hex_bytes(s: &str) -> Vec<u8> {
    (0..s.len() / 2)
        .map(|i| u8::from_str_radix(&s[2 * i..2 * i + 2], 16).unwrap_or(0))
        .collect()
}

pub fn to_hex(b: &[u8]) -> String {
    b.iter().map(|x| format!("{:02x}", x)).collect()
}

fn width_class(bits: usize) -> &'static str {
    match bits {
        8 => "w8",
        16 | 24 | 32 => "w16-32",
        40..=64 => "w40-64",
        65..=128 => "w72-128",
        129..=512 => "w129-512",
        _ => "w>64",
    }
}

fn offset_class(addr: u64, bytes: u64) -> &'static str {
    let off = addr % PAGE_SIZE as u64;
    if off + bytes > PAGE_SIZE as u64 {
        "crosses-page"
    } else if off + bytes == PAGE_SIZE as u64 {
        "ends-at-page-end"
    } else if off == 0 {
        "page-start"
    } else {
        "inside"
    }
}

struct Exec<'a, V: SimValue> {
    script: &'a Script,
    real: BTreeMap<(usize, bool), RC<backing::Memory>>,
    pool: Rc<RefCell<Pool<V>>>,
    mid: Rc<RefCell<MidOp<V>>>,
    scalars: Scalars,
    universe: Vec<u64>,
    c: Counters,
    states: BTreeSet<String>,
    log: LogHash,
    ticks: u64,
}

fn sig(v: &str, big: bool, backing: bool, fault: &str) -> String {
    format!(
        "V={} endian={} backing={} fault={}",
        v,
        if big { "big" } else { "little" },
        if backing { "yes" } else { "no" },
        fault
    )
}

impl<'a, V: SimValue> Exec<'a, V> {
    fn new(script: &'a Script) -> Result<Exec<'a, V>, String> {
        let cfg = &script.config;
        let mut backings = Vec::new();
        for regions in &cfg.backings {
            // one backing::Memory per (backing, endian) pair is created lazily below
            backings.push(regions.clone());
        }
        let mut pool = Pool {
            parties: BTreeMap::new(),
            next_content: 0,
        };
        // real backing objects are shared (same RC) between roots naming the same
        // backing index with the same endianness
        let mut real: BTreeMap<(usize, bool), RC<backing::Memory>> = BTreeMap::new();
        for root in &cfg.roots {
            let mut shadow = ByteModel::new(root.big_endian);
            let mem = match root.backing {
                Some(bi) if bi < backings.len() => {
                    for r in &backings[bi] {
                        shadow.add_backing_region(r.address, &hex_bytes(&r.data), r.perms);
                    }
                    shadow.has_backing = true;
                    let bbig = root.big_endian != root.backing_other_endian;
                    let rc = real.entry((bi, bbig)).or_insert_with(|| {
                        let mut b = backing::Memory::new(endian_of(bbig));
                        for r in &backings[bi] {
                            b.set_memory(r.address, hex_bytes(&r.data), perms_of(r.perms));
                        }
                        RC::new(b)
                    });
                    Memory::<V>::new_with_backing(endian_of(root.big_endian), rc.clone())
                }
                _ => Memory::<V>::new(endian_of(root.big_endian)),
            };
            let c = pool.fresh();
            pool.parties.insert(
                root.id,
                Party {
                    mem,
                    shadow,
                    content: c,
                    pristine: None,
                    wrote_since_fork: false,
                },
            );
        }
        let pool = Rc::new(RefCell::new(pool));
        let mid = Rc::new(RefCell::new(MidOp {
            pool: pool.clone(),
            armed: None,
            active: false,
            points: 0,
            fired: None,
            total_points: 0,
        }));
        let mut scalars = Scalars::new();
        for (n, h, b) in &cfg.scalars {
            scalars.insert(
                n.clone(),
                Val::new(
                    BigUint::from_str_radix(h, 16).map_err(|e| e.to_string())?,
                    *b,
                ),
            );
        }
        let mut universe = BTreeSet::new();
        for &(s, l) in &cfg.zones {
            for i in 0..l {
                universe.insert(s.wrapping_add(i));
            }
        }
        Ok(Exec {
            script,
            real,
            pool,
            mid,
            scalars,
            universe: universe.into_iter().collect(),
            c: Counters::default(),
            states: BTreeSet::new(),
            log: LogHash::new(),
            ticks: 0,
        })
    }

    fn install_hook(&self) {
        let mid = self.mid.clone();
        HOOK.with(|h| {
            *h.borrow_mut() = Some(Box::new(move |_site: &'static str| {
                let mut m = mid.borrow_mut();
                m.total_points += 1;
                if !m.active {
                    return;
                }
                m.points += 1;
                let fire = matches!(&m.armed, Some(a) if a.k == m.points);
                if fire {
                    let a = m.armed.take().unwrap();
                    let pool = m.pool.clone();
                    let mut pool = pool.borrow_mut();
                    let done = match a.kind.as_str() {
                        "drop" => pool.drop_party(a.victim),
                        _ => pool.fork(a.victim, a.new),
                    };
                    if done {
                        m.fired = Some(a.kind.clone());
                    }
                }
            }));
        });
        falcon::verif::set_point_hook(Some(hook_trampoline));
    }

    fn uninstall_hook() {
        falcon::verif::set_point_hook(None);
        HOOK.with(|h| *h.borrow_mut() = None);
    }

    fn fault_label(&self) -> String {
        match &self.mid.borrow().fired {
            Some(k) => format!("midop-{}", k),
            None => "none".into(),
        }
    }

    fn viol(&self, class: &str, party: &Party<V>, detail: String) -> Violation {
        Violation::new(
            class,
            sig(
                V::NAME,
                party.shadow.big_endian,
                party.shadow.has_backing,
                &self.fault_label(),
            ),
            detail,
        )
    }

    /// compare one load of the real memory with the shadow
    fn check_load(&mut self, party: &Party<V>, addr: u64, bits: usize, ctx: &str) -> Option<Violation> {
        let expect = party.shadow.load(addr, bits);
        if bits == 8 {
            // the byte as a lifter would fetch it must be the byte a load returns
            match catch(|| V::stream_byte(&party.mem, addr)) {
                Ok(None) => {}
                Ok(Some(b)) => {
                    self.c.inc("op.stream-byte");
                    let want = expect.as_ref().and_then(|v| v.v.to_u64()).map(|v| v as u8);
                    if b != want {
                        return Some(self.viol(
                            "stream-byte",
                            party,
                            format!("{}: TranslationMemory::get_u8(0x{:x}) = {:?} but the byte last stored or backed is {:?}", ctx, addr, b, want),
                        ));
                    }
                }
                Err(p) => {
                    // get_u8 unwraps the load: a failing load shows below as load-error
                    let _ = p;
                }
            }
        }
        let got = catch(|| party.mem.load(addr, bits));
        let got = match got {
            Err(p) => {
                return Some(self.viol(
                    "panic",
                    party,
                    format!("{}: load(0x{:x},{}) panicked: {}", ctx, addr, bits, panic_site(&p)),
                ))
            }
            Ok(Err(e)) => {
                return Some(self.viol(
                    "load-error",
                    party,
                    format!("{}: load(0x{:x},{}) returned Err({})", ctx, addr, bits, e),
                ))
            }
            Ok(Ok(v)) => v,
        };
        match (expect, got) {
            (None, None) => {
                self.log.str("absent");
                None
            }
            (Some(e), None) => Some(self.viol(
                "load-absent-mismatch",
                party,
                format!(
                    "{}: load(0x{:x},{}) reported absence, model has {}",
                    ctx,
                    addr,
                    bits,
                    e.hex()
                ),
            )),
            (None, Some(g)) => Some(self.viol(
                "load-absent-mismatch",
                party,
                format!(
                    "{}: load(0x{:x},{}) returned {:?} although a byte was never stored nor backed",
                    ctx, addr, bits, g
                ),
            )),
            (Some(e), Some(g)) => {
                if g.bits() != bits {
                    return Some(self.viol(
                        "load-width",
                        party,
                        format!(
                            "{}: load(0x{:x},{}) returned a {}-bit value",
                            ctx,
                            addr,
                            bits,
                            g.bits()
                        ),
                    ));
                }
                match catch(|| g.evaluate(&self.scalars)) {
                    Ok(Ok(v)) => {
                        self.log.str(&v.hex());
                        if v != e {
                            Some(self.viol(
                                "load-value",
                                party,
                                format!(
                                    "{}: load(0x{:x},{}) = {} but the bytes last stored give {}",
                                    ctx,
                                    addr,
                                    bits,
                                    v.hex(),
                                    e.hex()
                                ),
                            ))
                        } else {
                            None
                        }
                    }
                    Ok(Err(m)) => Some(self.viol(
                        "load-value",
                        party,
                        format!(
                            "{}: load(0x{:x},{}) returned an expression the reference cannot evaluate: {}",
                            ctx, addr, bits, m
                        ),
                    )),
                    Err(p) => Some(self.viol("panic", party, panic_site(&p))),
                }
            }
        }
    }

    fn check_perm(&mut self, party: &Party<V>, addr: u64, ctx: &str) -> Option<Violation> {
        let got = match catch(|| party.mem.permissions(addr)) {
            Ok(g) => g.map(|p| p.bits()),
            Err(p) => return Some(self.viol("panic", party, panic_site(&p))),
        };
        match party.shadow.permissions(addr) {
            PermExpect::Unspecified => {
                self.c.inc("perm.unspecified-not-compared");
                None
            }
            PermExpect::Exactly(e) => {
                if e == got {
                    None
                } else {
                    let in_range = party
                        .shadow
                        .perm_ranges
                        .iter()
                        .any(|&(s, l, _)| addr >= s && addr - s < l);
                    let class = if in_range { "perm-range" } else { "perm-backing" };
                    Some(self.viol(
                        class,
                        party,
                        format!(
                            "{}: permissions(0x{:x}) = {:?}, expected {:?}",
                            ctx, addr, got, e
                        ),
                    ))
                }
            }
        }
    }

    fn sweep_party(&mut self, id: usize, party: &Party<V>, ctx: &str) -> Option<Violation> {
        let universe = self.universe.clone();
        for a in universe {
            if let Some(mut v) = self.check_load(party, a, 8, ctx) {
                if v.class == "load-value" || v.class == "load-absent-mismatch" {
                    v.class = "clone-leak".into();
                    v.detail = format!("party {} diverged from its own history: {}", id, v.detail);
                }
                return Some(v);
            }
            if let Some(v) = self.check_perm(party, a, ctx) {
                return Some(v);
            }
        }
        None
    }

    fn sweep_all(&mut self, ctx: &str) -> Option<Violation> {
        self.c.inc("sweeps");
        let ids: Vec<usize> = self.pool.borrow().parties.keys().copied().collect();
        for id in ids {
            let party = self.pool.borrow_mut().parties.remove(&id);
            if let Some(party) = party {
                let r = self.sweep_party(id, &party, ctx);
                self.pool.borrow_mut().parties.insert(id, party);
                if r.is_some() {
                    return r;
                }
            }
        }
        None
    }

    /// probes about the cells a store is about to touch
    fn store_probes(&mut self, party: &Party<V>, addr: u64, bytes: u64) -> String {
        let page_of = |a: u64| a & !(PAGE_SIZE as u64 - 1);
        let cell = |a: u64| -> Option<&MemoryCell<V>> {
            party
                .mem
                .pages()
                .get(&page_of(a))
                .and_then(|p| p.cells()[(a % PAGE_SIZE as u64) as usize].as_ref())
        };
        let sc = match party.mem.pages().get(&page_of(addr)) {
            None => "absent",
            Some(p) => match RC::strong_count(p) {
                1 => "unique",
                2 => "shared2",
                _ => "shared3+",
            },
        };
        self.c.inc(&format!("store.page-{}", sc));
        let front = matches!(cell(addr), Some(MemoryCell::Backref(_)));
        let behind = matches!(cell(addr.wrapping_add(bytes)), Some(MemoryCell::Backref(_)));
        let pat = match (front, behind) {
            (true, true) => "split-both",
            (true, false) => "split-front",
            (false, true) => "split-behind",
            _ => {
                if (0..bytes).any(|i| cell(addr + i).is_some()) {
                    "overwrite"
                } else {
                    "fresh"
                }
            }
        };
        self.c.inc(&format!("store.{}", pat));
        if page_of(addr) != page_of(addr + (bytes - 1)) {
            self.c.inc("store.crossed-page");
        }
        format!("{}|{}", sc, pat)
    }

    fn run_action(&mut self, idx: usize, act: &Action) -> Option<Violation> {
        self.ticks += 1;
        self.log.u64(idx as u64);
        match act {
            Action::Arm { kind, k, victim, new } => {
                if self.script.config.fault_free {
                    return None;
                }
                self.log.str("arm");
                self.mid.borrow_mut().armed = Some(Armed {
                    kind: kind.clone(),
                    k: *k,
                    victim: *victim,
                    new: *new,
                });
                self.c.inc("fault.midop-armed");
                None
            }
            Action::Store { p, addr, val } => {
                let mut party = self.pool.borrow_mut().parties.remove(p)?;
                let r = self.do_store(&mut party, *addr, val);
                self.pool.borrow_mut().parties.insert(*p, party);
                r
            }
            Action::SetPerm { p, addr, len, perms } => {
                let mut party = self.pool.borrow_mut().parties.remove(p)?;
                let r = self.do_setperm(&mut party, *addr, *len, *perms);
                self.pool.borrow_mut().parties.insert(*p, party);
                r
            }
            Action::Load { p, addr, bits } => {
                let party = self.pool.borrow_mut().parties.remove(p)?;
                self.log.str("load");
                self.c.inc("op.load");
                // probes
                let n = *bits / 8;
                let st = (0..n as u64)
                    .filter(|i| party.shadow.stored.contains_key(&(addr + i)))
                    .count();
                let bk = (0..n as u64)
                    .filter(|i| {
                        !party.shadow.stored.contains_key(&(addr + i))
                            && party.shadow.backing.contains_key(&(addr + i))
                    })
                    .count();
                let src = if st == n {
                    "all-stored"
                } else if bk == n {
                    "all-backing"
                } else if st + bk == n {
                    "mixed-stored-backing"
                } else if st + bk + 1 == n {
                    "one-byte-missing"
                } else {
                    "several-missing"
                };
                self.c.inc(&format!("load.{}", src));
                let fast = match party
                    .mem
                    .pages()
                    .get(&(addr & !(PAGE_SIZE as u64 - 1)))
                    .and_then(|pg| pg.cells()[(addr % PAGE_SIZE as u64) as usize].as_ref())
                {
                    Some(MemoryCell::Value(v)) if v.bits() == *bits => "whole-value",
                    Some(MemoryCell::Value(v)) if v.bits() > *bits => "truncated-value",
                    Some(MemoryCell::Value(_)) => "reassembled",
                    Some(MemoryCell::Backref(_)) => "from-backref",
                    None => "no-cell",
                };
                self.c.inc(&format!("load.path-{}", fast));
                self.states.insert(format!(
                    "load|{}|{}|{}|{}|{}|{}",
                    width_class(*bits),
                    offset_class(*addr, n as u64),
                    src,
                    fast,
                    party.shadow.big_endian,
                    V::NAME
                ));
                let r = self.check_load(&party, *addr, *bits, &format!("action {}", idx));
                self.pool.borrow_mut().parties.insert(*p, party);
                r
            }
            Action::Perm { p, addr } => {
                let party = self.pool.borrow_mut().parties.remove(p)?;
                self.log.str("perm");
                self.c.inc("op.permissions");
                let r = self.check_perm(&party, *addr, &format!("action {}", idx));
                self.pool.borrow_mut().parties.insert(*p, party);
                r
            }
            Action::Fork { p, new } => {
                if self.script.config.fault_free {
                    return None;
                }
                if self.pool.borrow().parties.len() >= 8 {
                    return None;
                }
                let ok = match catch(|| self.pool.borrow_mut().fork(*p, *new)) {
                    Ok(ok) => ok,
                    Err(pm) => {
                        return Some(Violation::new(
                            "panic",
                            format!("V={} clone", V::NAME),
                            panic_site(&pm),
                        ))
                    }
                };
                if ok {
                    self.log.str("fork");
                    self.c.inc("fault.fork-at-boundary");
                    // reflexivity right after the clone
                    return self.compare(*p, *new, idx);
                }
                None
            }
            Action::Drop { p } => {
                if self.script.config.fault_free {
                    return None;
                }
                if self.pool.borrow().parties.len() <= 1 {
                    return None;
                }
                let party = self.pool.borrow_mut().parties.remove(p)?;
                self.log.str("drop");
                let parent_alive = party
                    .pristine
                    .map(|(pid, _, _)| self.pool.borrow().parties.contains_key(&pid))
                    .unwrap_or(false);
                if party.wrote_since_fork && parent_alive {
                    self.c.inc("fault.rollback");
                } else {
                    self.c.inc("fault.drop-at-boundary");
                }
                if let Err(pm) = catch(move || drop(party)) {
                    return Some(Violation::new(
                        "panic",
                        format!("V={} drop", V::NAME),
                        panic_site(&pm),
                    ));
                }
                None
            }
            Action::Compare { a, b } => self.compare(*a, *b, idx),
            Action::Sweep => self.sweep_all(&format!("sweep at action {}", idx)),
            Action::Copy { p, from, to, bits } => {
                let mut party = self.pool.borrow_mut().parties.remove(p)?;
                self.log.str("copy");
                let r = self.do_copy(&mut party, *from, *to, *bits);
                self.pool.borrow_mut().parties.insert(*p, party);
                r
            }
            Action::SetBacking { p, backing: which, other_endian } => {
                let mut party = self.pool.borrow_mut().parties.remove(p)?;
                self.log.str("set-backing");
                self.c.inc("op.set_backing");
                let big = party.shadow.big_endian != *other_endian;
                let regions: Option<&Vec<Region>> = which.and_then(|i| self.script.config.backings.get(i));
                let rc = match (which, regions) {
                    (Some(i), Some(regions)) => Some(
                        self.real
                            .entry((*i, big))
                            .or_insert_with(|| {
                                let mut b = backing::Memory::new(endian_of(big));
                                for r in regions {
                                    b.set_memory(r.address, hex_bytes(&r.data), perms_of(r.perms));
                                }
                                RC::new(b)
                            })
                            .clone(),
                    ),
                    _ => None,
                };
                party.shadow.backing.clear();
                party.shadow.has_backing = rc.is_some();
                if let Some(regions) = regions {
                    for r in regions {
                        party.shadow.add_backing_region(r.address, &hex_bytes(&r.data), r.perms);
                    }
                }
                let r = catch(|| party.mem.set_backing(rc));
                party.content = self.pool.borrow_mut().fresh();
                party.wrote_since_fork = true;
                let v = match r {
                    Err(pm) => Some(self.viol("panic", &party, panic_site(&pm))),
                    Ok(()) => None,
                };
                self.pool.borrow_mut().parties.insert(*p, party);
                v
            }
        }
    }

    fn compare(&mut self, a: usize, b: usize, idx: usize) -> Option<Violation> {
        let pool = self.pool.borrow();
        let (pa, pb) = (pool.parties.get(&a)?, pool.parties.get(&b)?);
        self.c.inc("op.compare");
        let eq = match catch(|| pa.mem == pb.mem) {
            Ok(e) => e,
            Err(pm) => {
                return Some(Violation::new(
                    "panic",
                    format!("V={} eq", V::NAME),
                    panic_site(&pm),
                ))
            }
        };
        self.log.str(if eq { "eq" } else { "ne" });
        let unmodified_clone = |child: &Party<V>, cid: usize, parent: &Party<V>, pid: usize| -> bool {
            let _ = cid;
            matches!(child.pristine, Some((pp, pc, cc)) if pp == pid && pc == parent.content && cc == child.content)
        };
        let must_equal = a == b || unmodified_clone(pa, a, pb, b) || unmodified_clone(pb, b, pa, a);
        if must_equal {
            self.c.inc("compare.must-be-equal");
            if !eq {
                return Some(Violation::new(
                    "eq-irreflexive",
                    sig(V::NAME, pa.shadow.big_endian, pa.shadow.has_backing, "none"),
                    format!(
                        "action {}: party {} and its unmodified clone {} compare unequal",
                        idx, a, b
                    ),
                ));
            }
        }
        if eq {
            self.c.inc("compare.equal");
            let same = pa.shadow.big_endian == pb.shadow.big_endian
                && pa.shadow.merged() == pb.shadow.merged();
            if !same {
                return Some(Violation::new(
                    "eq-but-loads-differ",
                    sig(V::NAME, pa.shadow.big_endian, pa.shadow.has_backing, "none"),
                    format!(
                        "action {}: parties {} and {} compare equal but their byte histories differ",
                        idx, a, b
                    ),
                ));
            }
        } else {
            self.c.inc("compare.unequal");
        }
        None
    }

    fn begin_op(&self) {
        let mut m = self.mid.borrow_mut();
        m.active = true;
        m.points = 0;
        m.fired = None;
    }

    fn end_op(&mut self) {
        let mut m = self.mid.borrow_mut();
        m.active = false;
        if m.fired.is_some() {
            let k = m.fired.clone().unwrap();
            drop(m);
            self.c.inc(&format!("fault.midop-{}-fired", k));
        } else if m.armed.is_some() {
            // the operation had fewer points than k: the fault did not fire
            m.armed = None;
            drop(m);
            self.c.inc("fault.midop-not-reached");
        }
    }

    fn do_store(&mut self, party: &mut Party<V>, addr: u64, spec: &ExprSpec) -> Option<Violation> {
        let value = match V::from_spec(spec) {
            Ok(v) => v,
            Err(_) => return None, // shrunk into an unusable value: no-op
        };
        let bits = value.bits();
        if bits == 0 || bits % 8 != 0 {
            return None;
        }
        let bytes = (bits / 8) as u64;
        let v = match value.evaluate(&self.scalars) {
            Ok(v) => v,
            Err(_) => return None,
        };
        self.c.inc("op.store");
        self.log.str("store");
        let probe = self.store_probes(party, addr, bytes);
        let page = addr & !(PAGE_SIZE as u64 - 1);
        let ptr_before = party.mem.pages().get(&page).map(|p| RC::as_ptr(p) as usize);
        // permissions must not be changed by a store: remember what is reported now
        let probe_addrs = [addr, addr + (bytes - 1), page, page + (PAGE_SIZE as u64 - 1)];
        let before: Vec<Option<u32>> = probe_addrs
            .iter()
            .map(|a| party.mem.permissions(*a).map(|p| p.bits()))
            .collect();

        self.begin_op();
        let r = catch(|| party.mem.store(addr, value));
        let fault = self.fault_label();
        self.end_op();
        party.content = self.pool.borrow_mut().fresh();
        party.wrote_since_fork = true;

        self.states.insert(format!(
            "store|{}|{}|{}|{}|{}|{}",
            width_class(bits),
            offset_class(addr, bytes),
            probe,
            party.shadow.big_endian,
            V::NAME,
            fault
        ));
        match r {
            Err(p) => {
                return Some(self.viol(
                    "panic",
                    party,
                    format!("store(0x{:x}, {} bits) panicked: {}", addr, bits, panic_site(&p)),
                ))
            }
            Ok(Err(e)) => {
                return Some(self.viol(
                    "store-error",
                    party,
                    format!("store(0x{:x}, {} bits) returned Err({})", addr, bits, e),
                ))
            }
            Ok(Ok(())) => {}
        }
        party.shadow.store(addr, &v);
        let ptr_after = party.mem.pages().get(&page).map(|p| RC::as_ptr(p) as usize);
        if ptr_before.is_some() && ptr_before != ptr_after {
            self.c.inc("store.cow-copy-observed");
        }
        // read back what was written, and the neighbours that may have been split
        if let Some(v) = self.check_load(party, addr, bits, "read-back after store") {
            return Some(v);
        }
        let mut neighbours = vec![addr.wrapping_add(bytes)];
        if addr > 0 {
            neighbours.push(addr - 1);
        }
        for a in neighbours {
            if let Some(v) = self.check_load(party, a, 8, "neighbour after store") {
                return Some(v);
            }
        }
        let after: Vec<Option<u32>> = probe_addrs
            .iter()
            .map(|a| party.mem.permissions(*a).map(|p| p.bits()))
            .collect();
        if before != after {
            return Some(self.viol(
                "perm-changed-by-store",
                party,
                format!(
                    "store(0x{:x}, {} bits) changed reported permissions at {:x?}: {:?} -> {:?}",
                    addr, bits, probe_addrs, before, after
                ),
            ));
        }
        None
    }

    fn do_copy(&mut self, party: &mut Party<V>, from: u64, to: u64, bits: usize) -> Option<Violation> {
        // only for constant memories: re-storing loaded *expressions* nests them deeper on
        // every round and the run time explodes (inherent to symbolic values, not a defect)
        if V::NAME != "constant" {
            return None;
        }
        if let Some(v) = self.check_load(party, from, bits, "copy source") {
            return Some(v);
        }
        let loaded = match catch(|| party.mem.load(from, bits)) {
            Ok(Ok(Some(x))) => x,
            _ => return None,
        };
        let val = match party.shadow.load(from, bits) {
            Some(v) => v,
            None => return None,
        };
        self.c.inc("op.copy");
        if from == to {
            self.c.inc("op.copy-restore-in-place");
            let from_backing = (0..bits as u64 / 8).any(|i| !party.shadow.stored.contains_key(&(from + i)));
            if from_backing {
                self.c.inc("copy.restores-backing-bytes");
            }
        }
        self.begin_op();
        let r = catch(|| party.mem.store(to, loaded));
        self.end_op();
        party.content = self.pool.borrow_mut().fresh();
        party.wrote_since_fork = true;
        match r {
            Err(p) => return Some(self.viol("panic", party, format!("store of a loaded value at 0x{:x} panicked: {}", to, panic_site(&p)))),
            Ok(Err(e)) => return Some(self.viol("store-error", party, format!("store of a loaded {}-bit value at 0x{:x}: Err({})", bits, to, e))),
            Ok(Ok(())) => {}
        }
        party.shadow.store(to, &val);
        self.check_load(party, to, bits, "read-back after copy")
    }

    fn do_setperm(&mut self, party: &mut Party<V>, addr: u64, len: u64, perms: u32) -> Option<Violation> {
        if len == 0 {
            return None;
        }
        self.c.inc("op.set_permissions");
        self.log.str("setperm");
        self.begin_op();
        let r = catch(|| party.mem.set_permissions(addr, len, perms_of(perms)));
        let fault = self.fault_label();
        self.end_op();
        party.content = self.pool.borrow_mut().fresh();
        party.wrote_since_fork = true;
        self.states.insert(format!(
            "setperm|{}|{}|{}",
            offset_class(addr, len),
            V::NAME,
            fault
        ));
        if let Err(p) = r {
            return Some(self.viol("panic", party, panic_site(&p)));
        }
        party.shadow.set_permissions(addr, len, perms);
        for a in [addr, addr + len / 2, addr + (len - 1)] {
            if let Some(v) = self.check_perm(party, a, "after set_permissions") {
                return Some(v);
            }
        }
        // data is untouched by a permission change
        for a in [addr, addr + (len - 1)] {
            if let Some(v) = self.check_load(party, a, 8, "data after set_permissions") {
                return Some(v);
            }
        }
        None
    }
}

fn execute_typed<V: SimValue>(script: &Script) -> Outcome {
    let mut ex = match Exec::<V>::new(script) {
        Ok(e) => e,
        Err(m) => {
            return Outcome {
                violation: Some(Violation::new("harness", "setup".into(), m)),
                counters: Counters::default(),
                states: BTreeSet::new(),
                log: LogHash::new(),
                ticks: 0,
            }
        }
    };
    ex.install_hook();
    let mut violation = None;
    for (i, a) in script.actions.iter().enumerate() {
        if let Some(v) = ex.run_action(i, a) {
            violation = Some(v);
            break;
        }
    }
    if violation.is_none() {
        violation = ex.sweep_all("final sweep");
    }
    Exec::<V>::uninstall_hook();
    ex.c.add("points.total", ex.mid.borrow().total_points);
    if script.config.fault_free {
        ex.c.inc("runs.fault-free");
    } else {
        ex.c.inc("runs.fault-injecting");
    }
    Outcome {
        violation,
        counters: ex.c,
        states: ex.states,
        log: ex.log,
        ticks: ex.ticks,
    }
}

pub fn execute(script: &Script) -> Outcome {
    if script.config.vtype == "expression" {
        execute_typed::<il::Expression>(script)
    } else {
        execute_typed::<il::Constant>(script)
    }
}

// ---------------------------------------------------------------- generation

const WIDTHS: &[usize] = &[8, 16, 24, 32, 40, 48, 56, 64, 72, 96, 128, 256, 512];

fn gen_value(rng: &mut Rng, bits: usize, expression: bool, names: &[(String, usize)]) -> ExprSpec {
    let constant = |rng: &mut Rng| {
        let b = rng.corner_bytes(bits / 8);
        ExprSpec::c(&Val::from_be_bytes(&b))
    };
    if !expression || bits > 512 {
        return constant(rng);
    }
    let same: Vec<&(String, usize)> = names.iter().filter(|n| n.1 == bits).collect();
    match rng.below(6) {
        0 => constant(rng),
        1 | 2 if !same.is_empty() => {
            let n = rng.pick(&same);
            ExprSpec::s(&n.0, n.1)
        }
        3 if !same.is_empty() => {
            let n = rng.pick(&same);
            ExprSpec::b(
                *rng.pick(&["add", "xor", "sub", "or", "and"]),
                ExprSpec::s(&n.0, n.1),
                constant(rng),
            )
        }
        4 => {
            let smaller: Vec<&(String, usize)> = names.iter().filter(|n| n.1 < bits).collect();
            if smaller.is_empty() {
                constant(rng)
            } else {
                let n = rng.pick(&smaller);
                ExprSpec::x(
                    *rng.pick(&["zext", "sext"]),
                    bits,
                    ExprSpec::s(&n.0, n.1),
                )
            }
        }
        _ => {
            let larger: Vec<&(String, usize)> = names.iter().filter(|n| n.1 > bits).collect();
            if larger.is_empty() {
                constant(rng)
            } else {
                let n = rng.pick(&larger);
                ExprSpec::x("trun", bits, ExprSpec::s(&n.0, n.1))
            }
        }
    }
}

pub fn generate(run_seed: u64, index: u64) -> Script {
    let mut rng = Rng::new(run_seed);
    let fault_free = index % 4 == 0;
    let expression = rng.chance(3, 10);
    let big = rng.chance(1, 2);
    let mixed_endian = rng.chance(1, 12);

    // widths enabled in this run
    let mut widths: Vec<usize> = WIDTHS.iter().copied().filter(|_| rng.chance(1, 2)).collect();
    if widths.is_empty() {
        widths.push(*rng.pick(WIDTHS));
    }
    if !widths.contains(&8) && rng.chance(1, 2) {
        widths.push(8);
    }
    // rarely: values of more than a page (1026 and 2056 bytes) so that one value spans
    // three copy-on-write pages
    // (constant memories only: a page-sized load from an expression memory builds and
    // evaluates an expression tree of thousands of nodes per byte and takes seconds)
    let huge = !expression && rng.chance(1, 60);
    if huge {
        // 1026 bytes span three pages only from the last bytes of a page; 2056 bytes always do
        widths.push(*rng.pick(&[8208usize, 16448]));
    }
    // in those runs the backing may be large as well (several pages around the first zone),
    // so that page-spanning loads are fully backed and only sparsely overlaid by stores
    let big_backing = huge && rng.chance(1, 6);

    // zones
    // (the last two: a zone ending exactly at 2^64, and one across the start of the last page)
    let candidates: [u64; 10] = [
        0x3e8, 0x7e8, 0x10, 0x1_0000_03e8, 0xbd0, 0x7fff_ffff_ffff_f3e8, 0xffff_ffff_0000_07e0, 0x8000_0000_0000_03e8,
        0xffff_ffff_ffff_ffd0, 0xffff_ffff_ffff_fbe8,
    ];
    // nothing generated wraps around 2^64: how far an access starting at `a` may reach
    let room = |a: u64| -> u64 { 0u64.wrapping_sub(a).wrapping_sub(1).saturating_add(1) };
    let nz = rng.range(2, 3) as usize;
    let mut zones: Vec<(u64, u64)> = Vec::new();
    let mut cand: Vec<u64> = candidates.to_vec();
    rng.shuffle(&mut cand);
    for z in cand.into_iter().filter(|z| room(*z) > 1 << 20).take(nz) {
        zones.push((z, 48));
    }
    // one run in five: the last zone lies at the very top of the address space (never the
    // first zone, which the backing constructions below are built around)
    if rng.chance(1, 5) {
        let top = if rng.chance(2, 3) { 0xffff_ffff_ffff_ffd0 } else { 0xffff_ffff_ffff_fbe8 };
        *zones.last_mut().unwrap() = (top, 48);
    }

    // backings
    let mut backings: Vec<Vec<Region>> = Vec::new();
    let with_backing = rng.chance(65, 100);
    if with_backing {
        let mut regions = Vec::new();
        // regions are disjoint and non-empty; each overlaps a zone partially so that
        // loads straddle the backing's edge
        for (zi, &(zs, _)) in zones.iter().enumerate() {
            if rng.chance(2, 3) && room(zs) > 1 << 20 {
                let start = zs + rng.range(0, 30);
                let len = rng.range(1, 40);
                let len = len.min(zs + 60 - start);
                let perms = *rng.pick(&[1u32, 3, 5, 7, 4, 0]);
                regions.push(Region {
                    address: start,
                    data: to_hex(&rng.bytes(len as usize)),
                    perms,
                });
            }
            let _ = zi;
        }
        if regions.is_empty() {
            regions.push(Region {
                address: zones[0].0 + 8,
                data: to_hex(&rng.bytes(24)),
                perms: 5,
            });
        }
        if !big_backing && rng.chance(1, 4) {
            // a backing assembled from overlapping set_memory calls (later ones win), with
            // starts and ends on a 4-byte grid so that boundaries coincide
            regions.clear();
            let z = zones[0].0;
            let mut points: Vec<u64> = Vec::new();
            for _ in 0..rng.range(3, 5) {
                // starts and ends are drawn from the boundaries already in use half of the
                // time: adjacent sections, and patches ending exactly where a section ends
                let mut start = z + 4 * rng.below(10);
                if !points.is_empty() && rng.chance(1, 2) {
                    start = *rng.pick(&points);
                }
                let mut len = 4 * rng.range(1, 6);
                if !points.is_empty() && rng.chance(1, 2) {
                    let end = *rng.pick(&points);
                    if end > start && end - start <= 64 {
                        len = end - start;
                    }
                }
                points.push(start);
                points.push(start + len);
                regions.push(Region {
                    address: start,
                    data: to_hex(&rng.bytes(len as usize)),
                    perms: *rng.pick(&[1u32, 3, 5, 7, 4, 0]),
                });
            }
        }
        if big_backing {
            let start = (zones[0].0 & !1023).saturating_sub(2048);
            regions.clear();
            regions.push(Region {
                address: start,
                data: to_hex(&rng.bytes(6144)),
                perms: 5,
            });
        }
        backings.push(regions.clone());
        if rng.chance(1, 4) {
            // a second, distinct backing object with equal content
            backings.push(regions);
        }
    }

    let nroots = if fault_free { 1 } else { rng.range(1, 4) as usize };
    let mut roots = Vec::new();
    for id in 0..nroots {
        let be = if mixed_endian { rng.chance(1, 2) } else { big };
        let backing = if backings.is_empty() || rng.chance(1, 8) {
            None
        } else {
            Some(rng.usize_below(backings.len()))
        };
        roots.push(Root {
            id,
            big_endian: be,
            backing,
            backing_other_endian: rng.chance(1, 4),
        });
    }

    // scalar names for expression memories: two per width
    let mut names: Vec<(String, usize)> = Vec::new();
    let mut scalars = Vec::new();
    if expression {
        for &w in WIDTHS {
            for k in 0..2 {
                let n = format!("s{}_{}", w, k);
                let v = Val::from_be_bytes(&rng.corner_bytes(w / 8));
                scalars.push((n.clone(), format!("{:x}", v.v), w));
                names.push((n, w));
            }
        }
    }

    // action mix (swarm): each kind enabled with its own weight
    let mut weights: Vec<(&str, u64)> = vec![("store", 10), ("load", 8)];
    for (k, w) in [
        ("setperm", 2u64),
        ("perm", 2),
        ("fork", 3),
        ("drop", 2),
        ("compare", 2),
        ("sweep", 1),
        ("arm", 2),
        ("setbacking", 1),
        ("copy", 2),
    ] {
        if rng.chance(2, 3) {
            weights.push((k, w));
        }
    }
    let total: u64 = weights.iter().map(|w| w.1).sum();

    // runs with page-sized values are kept short (each such load is thousands of big-number
    // operations)
    let len = if huge { rng.range(3, 10) as usize } else { rng.range(3, 60) as usize };
    let mut actions = Vec::new();
    let mut next_id = nroots;
    let mut live: Vec<usize> = (0..nroots).collect();
    let addr_in = |rng: &mut Rng, bytes: u64| -> u64 {
        let z = *rng.pick(&zones);
        // allow starting a little before the zone end so that ranges straddle it
        let span = z.1.saturating_sub(bytes.min(z.1)) + 1;
        let a = z.0 + rng.below(span.max(1));
        // at the top of the address space an access may end at 2^64 but not wrap
        if room(a) < bytes {
            0u64.wrapping_sub(bytes)
        } else {
            a
        }
    };
    while actions.len() < len {
        let mut r = rng.below(total);
        let mut kind = "store";
        for (k, w) in &weights {
            if r < *w {
                kind = k;
                break;
            }
            r -= *w;
        }
        let p = *rng.pick(&live);
        match kind {
            "store" => {
                let bits = *rng.pick(&widths);
                let addr = addr_in(&mut rng, bits as u64 / 8);
                actions.push(Action::Store {
                    p,
                    addr,
                    val: gen_value(&mut rng, bits, expression, &names),
                });
            }
            "load" if big_backing && rng.chance(1, 3) => {
                // a load of two to three pages starting up to two pages before the zone
                let bits = *rng.pick(&[8208usize, 16448, 24640]);
                let z0 = zones[0].0;
                let addr = z0.saturating_sub(rng.below(2048));
                actions.push(Action::Load { p, addr, bits });
            }
            "load" => {
                let bits = if rng.chance(1, 5) {
                    *rng.pick(WIDTHS)
                } else {
                    *rng.pick(&widths)
                };
                let addr = addr_in(&mut rng, bits as u64 / 8);
                actions.push(Action::Load { p, addr, bits });
            }
            "setperm" => {
                let addr = addr_in(&mut rng, 1);
                let len = match rng.below(4) {
                    0 => 1,
                    1 => rng.range(1, 48),
                    2 => rng.range(1000, 1100),
                    _ => rng.range(1, 2200),
                };
                actions.push(Action::SetPerm {
                    p,
                    addr,
                    len: len.min(room(addr)),
                    perms: *rng.pick(&[0u32, 1, 2, 3, 4, 5, 6, 7]),
                });
            }
            "perm" => {
                let addr = addr_in(&mut rng, 1);
                actions.push(Action::Perm { p, addr });
            }
            "fork" if !fault_free => {
                if live.len() < 8 {
                    actions.push(Action::Fork { p, new: next_id });
                    live.push(next_id);
                    next_id += 1;
                }
            }
            "drop" if !fault_free => {
                if live.len() > 1 {
                    // bias towards the newest party (rollback of the latest fork)
                    let victim = if rng.chance(1, 2) { *live.last().unwrap() } else { p };
                    actions.push(Action::Drop { p: victim });
                    live.retain(|x| *x != victim);
                }
            }
            "compare" => {
                let q = *rng.pick(&live);
                actions.push(Action::Compare { a: p, b: q });
            }
            "sweep" => actions.push(Action::Sweep),
            "setbacking" => {
                let which = if backings.is_empty() || rng.chance(1, 3) {
                    None
                } else {
                    Some(rng.usize_below(backings.len()))
                };
                actions.push(Action::SetBacking { p, backing: which, other_endian: rng.chance(1, 4) });
            }
            "copy" if !expression => {
                let bits = *rng.pick(&widths);
                let from = addr_in(&mut rng, bits as u64 / 8);
                let to = if rng.chance(1, 2) { from } else { addr_in(&mut rng, bits as u64 / 8) };
                actions.push(Action::Copy { p, from, to, bits });
            }
            "arm" if !fault_free => {
                if live.len() > 1 {
                    let victim = *rng.pick(&live);
                    let k = rng.range(1, 6) as usize;
                    if rng.chance(1, 2) {
                        actions.push(Action::Arm {
                            kind: "drop".into(),
                            k,
                            victim,
                            new: 0,
                        });
                        // the victim may or may not die (it is skipped if it is the
                        // actor): keep it in `live`; actions on a dead party are no-ops
                    } else if live.len() < 8 {
                        actions.push(Action::Arm {
                            kind: "fork".into(),
                            k,
                            victim,
                            new: next_id,
                        });
                        live.push(next_id);
                        next_id += 1;
                    }
                    // follow with a multi-cell mutation so the fault lands in flight
                    let q = *rng.pick(&live);
                    if rng.chance(3, 4) {
                        let bits = *rng.pick(&[32usize, 64, 128, 256]);
                        // aim at a page boundary: the copy decision changes between cells
                        let z = *rng.pick(&zones);
                        let boundary = (z.0 | (PAGE_SIZE as u64 - 1)).wrapping_add(1);
                        let addr = if room(z.0) > 1 << 20 && boundary < z.0 + z.1 && rng.chance(2, 3) {
                            boundary - rng.range(1, (bits as u64 / 8) - 1).min(boundary - z.0)
                        } else {
                            addr_in(&mut rng, bits as u64 / 8)
                        };
                        actions.push(Action::Store {
                            p: q,
                            addr,
                            val: gen_value(&mut rng, bits, expression, &names),
                        });
                    } else {
                        let addr = addr_in(&mut rng, 1);
                        actions.push(Action::SetPerm {
                            p: q,
                            addr,
                            len: rng.range(1025, 3000).min(room(addr)),
                            perms: *rng.pick(&[1u32, 5, 7]),
                        });
                    }
                }
            }
            _ => {}
        }
    }

    Script {
        config: Config {
            vtype: if expression { "expression" } else { "constant" }.into(),
            roots,
            backings,
            scalars,
            zones,
            fault_free,
        },
        actions,
    }
}

// ---------------------------------------------------------------- minimisation

pub fn minimise(script: &Script, class: &str) -> Script {
    let cfg = script.config.clone();
    let still = |acts: &[Action]| -> bool {
        let s = Script {
            config: cfg.clone(),
            actions: acts.to_vec(),
        };
        matches!(execute(&s).violation, Some(v) if v.class == class)
    };
    let actions = crate::harness::ddmin(script.actions.clone(), still);
    let mut best = Script {
        config: cfg,
        actions,
    };
    // simplify: fewer roots, no second backing, constant values zeroed
    let try_cfg = |cand: Script, best: &mut Script| {
        if matches!(execute(&cand).violation, Some(v) if v.class == class) {
            *best = cand;
        }
    };
    if best.config.roots.len() > 1 {
        let used: BTreeSet<usize> = best
            .actions
            .iter()
            .flat_map(|a| match a {
                Action::Store { p, .. }
                | Action::Load { p, .. }
                | Action::SetPerm { p, .. }
                | Action::Perm { p, .. }
                | Action::SetBacking { p, .. }
                | Action::Copy { p, .. }
                | Action::Drop { p } => vec![*p],
                Action::Fork { p, new } => vec![*p, *new],
                Action::Compare { a, b } => vec![*a, *b],
                Action::Arm { victim, new, .. } => vec![*victim, *new],
                Action::Sweep => vec![],
            })
            .collect();
        let mut cand = best.clone();
        cand.config.roots.retain(|r| used.contains(&r.id));
        if !cand.config.roots.is_empty() {
            try_cfg(cand, &mut best);
        }
    }
    for i in 0..best.actions.len() {
        if let Action::Store { p, addr, val } = &best.actions[i] {
            if let ExprSpec::C(_, b) = val {
                let mut cand = best.clone();
                cand.actions[i] = Action::Store {
                    p: *p,
                    addr: *addr,
                    val: ExprSpec::cu(1, *b),
                };
                try_cfg(cand, &mut best);
            }
        }
    }
    best
}
