//! Reference value semantics (DESIGN Appendix B), written from the IL
//! documentation, not from falcon's `Constant`/`eval` code paths.

use falcon::il;
use num_bigint::BigUint;
use num_traits::{One, ToPrimitive, Zero};
use std::collections::BTreeMap;

#[derive(Clone, Debug, PartialEq, Eq)]
pub struct Val {
    pub bits: usize,
    pub v: BigUint,
}

#[derive(Clone, Debug, PartialEq, Eq)]
pub enum Stuck {
    UndefinedScalar(String),
    DivZero,
    /// ill-sorted expression (operands of different width etc.)
    Sort(String),
    /// outside what the reference defines (e.g. ashr amount > width)
    Undefined(String),
}

fn mask(bits: usize) -> BigUint {
    (BigUint::one() << bits) - BigUint::one()
}

impl Val {
    pub fn new(v: BigUint, bits: usize) -> Val {
        Val {
            bits,
            v: v & mask(bits),
        }
    }
    pub fn from_u64(v: u64, bits: usize) -> Val {
        Val::new(BigUint::from(v), bits)
    }
    pub fn from_be_bytes(b: &[u8]) -> Val {
        Val {
            bits: b.len() * 8,
            v: BigUint::from_bytes_be(b),
        }
    }
    pub fn from_le_bytes(b: &[u8]) -> Val {
        Val {
            bits: b.len() * 8,
            v: BigUint::from_bytes_le(b),
        }
    }
    /// exactly bits/8 bytes, most significant first
    pub fn to_be_bytes(&self) -> Vec<u8> {
        let n = self.bits / 8;
        let raw = self.v.to_bytes_be();
        let mut out = vec![0u8; n];
        let start = n - raw.len().min(n);
        let rawstart = raw.len() - raw.len().min(n);
        out[start..].copy_from_slice(&raw[rawstart..]);
        out
    }
    pub fn to_le_bytes(&self) -> Vec<u8> {
        let mut b = self.to_be_bytes();
        b.reverse();
        b
    }
    pub fn from_constant(c: &il::Constant) -> Val {
        Val {
            bits: c.bits(),
            v: c.value().clone(),
        }
    }
    pub fn to_constant(&self) -> il::Constant {
        il::Constant::new_big(self.v.clone(), self.bits)
    }
    pub fn is_one(&self) -> bool {
        self.v.is_one()
    }
    pub fn is_zero(&self) -> bool {
        self.v.is_zero()
    }
    pub fn to_u64(&self) -> Option<u64> {
        self.v.to_u64()
    }
    pub fn sign(&self) -> bool {
        ((&self.v >> (self.bits - 1)) & BigUint::one()).is_one()
    }
    /// magnitude of the two's complement value
    fn magnitude(&self) -> BigUint {
        if self.sign() {
            (BigUint::one() << self.bits) - &self.v
        } else {
            self.v.clone()
        }
    }
    fn from_sign_magnitude(neg: bool, m: BigUint, bits: usize) -> Val {
        let m = m & mask(bits);
        if neg && !m.is_zero() {
            Val::new((BigUint::one() << bits) - m, bits)
        } else {
            Val::new(m, bits)
        }
    }
    pub fn hex(&self) -> String {
        format!("0x{:x}:{}", self.v, self.bits)
    }
}

pub type Scalars = BTreeMap<String, Val>;

fn same(a: &Val, b: &Val, what: &str) -> Result<(), Stuck> {
    if a.bits != b.bits {
        Err(Stuck::Sort(format!("{} {} vs {}", what, a.bits, b.bits)))
    } else {
        Ok(())
    }
}

fn bool1(b: bool) -> Val {
    Val::from_u64(b as u64, 1)
}

/// Evaluate an IL expression under a scalar valuation keyed by name.
pub fn eval(e: &il::Expression, sc: &Scalars) -> Result<Val, Stuck> {
    use il::Expression as E;
    Ok(match e {
        E::Scalar(s) => match sc.get(s.name()) {
            Some(v) => v.clone(),
            None => return Err(Stuck::UndefinedScalar(s.name().to_string())),
        },
        E::Constant(c) => Val::from_constant(c),
        E::Add(a, b) => {
            let (a, b) = (eval(a, sc)?, eval(b, sc)?);
            same(&a, &b, "add")?;
            Val::new(a.v + b.v, a.bits)
        }
        E::Sub(a, b) => {
            let (a, b) = (eval(a, sc)?, eval(b, sc)?);
            same(&a, &b, "sub")?;
            Val::new((BigUint::one() << a.bits) + a.v - b.v, a.bits)
        }
        E::Mul(a, b) => {
            let (a, b) = (eval(a, sc)?, eval(b, sc)?);
            same(&a, &b, "mul")?;
            Val::new(a.v * b.v, a.bits)
        }
        E::Divu(a, b) => {
            let (a, b) = (eval(a, sc)?, eval(b, sc)?);
            same(&a, &b, "divu")?;
            if b.is_zero() {
                return Err(Stuck::DivZero);
            }
            Val::new(a.v / b.v, a.bits)
        }
        E::Modu(a, b) => {
            let (a, b) = (eval(a, sc)?, eval(b, sc)?);
            same(&a, &b, "modu")?;
            if b.is_zero() {
                return Err(Stuck::DivZero);
            }
            Val::new(a.v % b.v, a.bits)
        }
        E::Divs(a, b) => {
            let (a, b) = (eval(a, sc)?, eval(b, sc)?);
            same(&a, &b, "divs")?;
            if b.is_zero() {
                return Err(Stuck::DivZero);
            }
            // truncating toward zero
            let q = a.magnitude() / b.magnitude();
            Val::from_sign_magnitude(a.sign() != b.sign(), q, a.bits)
        }
        E::Mods(a, b) => {
            let (a, b) = (eval(a, sc)?, eval(b, sc)?);
            same(&a, &b, "mods")?;
            if b.is_zero() {
                return Err(Stuck::DivZero);
            }
            // remainder takes the sign of the dividend
            let r = a.magnitude() % b.magnitude();
            Val::from_sign_magnitude(a.sign(), r, a.bits)
        }
        E::And(a, b) => {
            let (a, b) = (eval(a, sc)?, eval(b, sc)?);
            same(&a, &b, "and")?;
            Val::new(a.v & b.v, a.bits)
        }
        E::Or(a, b) => {
            let (a, b) = (eval(a, sc)?, eval(b, sc)?);
            same(&a, &b, "or")?;
            Val::new(a.v | b.v, a.bits)
        }
        E::Xor(a, b) => {
            let (a, b) = (eval(a, sc)?, eval(b, sc)?);
            same(&a, &b, "xor")?;
            Val::new(a.v ^ b.v, a.bits)
        }
        E::Shl(a, b) => {
            let (a, b) = (eval(a, sc)?, eval(b, sc)?);
            same(&a, &b, "shl")?;
            match b.v.to_usize() {
                Some(n) if n < a.bits => Val::new(a.v << n, a.bits),
                _ => Val::from_u64(0, a.bits),
            }
        }
        E::Shr(a, b) => {
            let (a, b) = (eval(a, sc)?, eval(b, sc)?);
            same(&a, &b, "shr")?;
            match b.v.to_usize() {
                Some(n) if n < a.bits => Val::new(a.v >> n, a.bits),
                _ => Val::from_u64(0, a.bits),
            }
        }
        E::AShr(a, b) => {
            let (a, b) = (eval(a, sc)?, eval(b, sc)?);
            same(&a, &b, "ashr")?;
            // an amount of the width or more leaves only copies of the sign bit
            let n = b.v.to_usize().map(|n| n.min(a.bits)).unwrap_or(a.bits);
            let shifted = &a.v >> n;
            if a.sign() {
                let fill = mask(a.bits) ^ mask(a.bits - n);
                Val::new(shifted | fill, a.bits)
            } else {
                Val::new(shifted, a.bits)
            }
        }
        E::Cmpeq(a, b) => {
            let (a, b) = (eval(a, sc)?, eval(b, sc)?);
            same(&a, &b, "cmpeq")?;
            bool1(a.v == b.v)
        }
        E::Cmpneq(a, b) => {
            let (a, b) = (eval(a, sc)?, eval(b, sc)?);
            same(&a, &b, "cmpneq")?;
            bool1(a.v != b.v)
        }
        E::Cmpltu(a, b) => {
            let (a, b) = (eval(a, sc)?, eval(b, sc)?);
            same(&a, &b, "cmpltu")?;
            bool1(a.v < b.v)
        }
        E::Cmplts(a, b) => {
            let (a, b) = (eval(a, sc)?, eval(b, sc)?);
            same(&a, &b, "cmplts")?;
            let r = match (a.sign(), b.sign()) {
                (true, false) => true,
                (false, true) => false,
                _ => a.v < b.v,
            };
            bool1(r)
        }
        E::Zext(bits, a) => {
            let a = eval(a, sc)?;
            if *bits <= a.bits {
                return Err(Stuck::Sort(format!("zext {} of {}", bits, a.bits)));
            }
            Val::new(a.v, *bits)
        }
        E::Sext(bits, a) => {
            let a = eval(a, sc)?;
            if *bits <= a.bits {
                return Err(Stuck::Sort(format!("sext {} of {}", bits, a.bits)));
            }
            if a.sign() {
                let fill = mask(*bits) ^ mask(a.bits);
                Val::new(a.v | fill, *bits)
            } else {
                Val::new(a.v, *bits)
            }
        }
        E::Trun(bits, a) => {
            let a = eval(a, sc)?;
            if *bits >= a.bits || *bits == 0 {
                return Err(Stuck::Sort(format!("trun {} of {}", bits, a.bits)));
            }
            Val::new(a.v, *bits)
        }
        E::Ite(c, t, f) => {
            let c = eval(c, sc)?;
            if c.bits != 1 {
                return Err(Stuck::Sort(format!("ite cond {} bits", c.bits)));
            }
            // only the selected arm is evaluated (a stuck unselected arm does not matter)
            if c.is_one() {
                eval(t, sc)?
            } else {
                eval(f, sc)?
            }
        }
    })
}

/// Static width of an expression recomputed bottom-up, with the sort rules of
/// the IL documentation. `Err` describes the first violated rule.
pub fn sort_check(e: &il::Expression) -> Result<usize, String> {
    use il::Expression as E;
    fn bin(a: &il::Expression, b: &il::Expression, what: &str) -> Result<usize, String> {
        let (x, y) = (sort_check(a)?, sort_check(b)?);
        if x != y {
            Err(format!("{} operands {} vs {} bits", what, x, y))
        } else {
            Ok(x)
        }
    }
    match e {
        E::Scalar(s) => {
            if s.bits() == 0 {
                Err(format!("scalar {} has 0 bits", s.name()))
            } else {
                Ok(s.bits())
            }
        }
        E::Constant(c) => {
            if c.bits() == 0 {
                Err("constant with 0 bits".to_string())
            } else if c.value().bits() as usize > c.bits() {
                Err(format!("constant value exceeds {} bits", c.bits()))
            } else {
                Ok(c.bits())
            }
        }
        E::Add(a, b) => bin(a, b, "add"),
        E::Sub(a, b) => bin(a, b, "sub"),
        E::Mul(a, b) => bin(a, b, "mul"),
        E::Divu(a, b) => bin(a, b, "divu"),
        E::Modu(a, b) => bin(a, b, "modu"),
        E::Divs(a, b) => bin(a, b, "divs"),
        E::Mods(a, b) => bin(a, b, "mods"),
        E::And(a, b) => bin(a, b, "and"),
        E::Or(a, b) => bin(a, b, "or"),
        E::Xor(a, b) => bin(a, b, "xor"),
        E::Shl(a, b) => bin(a, b, "shl"),
        E::Shr(a, b) => bin(a, b, "shr"),
        E::AShr(a, b) => bin(a, b, "ashr"),
        E::Cmpeq(a, b) => bin(a, b, "cmpeq").map(|_| 1),
        E::Cmpneq(a, b) => bin(a, b, "cmpneq").map(|_| 1),
        E::Cmpltu(a, b) => bin(a, b, "cmpltu").map(|_| 1),
        E::Cmplts(a, b) => bin(a, b, "cmplts").map(|_| 1),
        E::Zext(bits, a) => {
            let x = sort_check(a)?;
            if *bits <= x {
                Err(format!("zext to {} of {} bits", bits, x))
            } else {
                Ok(*bits)
            }
        }
        E::Sext(bits, a) => {
            let x = sort_check(a)?;
            if *bits <= x {
                Err(format!("sext to {} of {} bits", bits, x))
            } else {
                Ok(*bits)
            }
        }
        E::Trun(bits, a) => {
            let x = sort_check(a)?;
            if *bits >= x || *bits == 0 {
                Err(format!("trun to {} of {} bits", bits, x))
            } else {
                Ok(*bits)
            }
        }
        E::Ite(c, t, f) => {
            let cb = sort_check(c)?;
            if cb != 1 {
                return Err(format!("ite condition has {} bits", cb));
            }
            bin(t, f, "ite arms")
        }
    }
}

/// names and widths of every scalar occurring in the expression (own traversal)
pub fn collect_scalars(e: &il::Expression, out: &mut BTreeMap<String, usize>) {
    use il::Expression as E;
    match e {
        E::Scalar(s) => {
            out.entry(s.name().to_string()).or_insert(s.bits());
        }
        E::Constant(_) => {}
        E::Add(a, b)
        | E::Sub(a, b)
        | E::Mul(a, b)
        | E::Divu(a, b)
        | E::Modu(a, b)
        | E::Divs(a, b)
        | E::Mods(a, b)
        | E::And(a, b)
        | E::Or(a, b)
        | E::Xor(a, b)
        | E::Shl(a, b)
        | E::Shr(a, b)
        | E::AShr(a, b)
        | E::Cmpeq(a, b)
        | E::Cmpneq(a, b)
        | E::Cmpltu(a, b)
        | E::Cmplts(a, b) => {
            collect_scalars(a, out);
            collect_scalars(b, out);
        }
        E::Zext(_, a) | E::Sext(_, a) | E::Trun(_, a) => collect_scalars(a, out),
        E::Ite(c, t, f) => {
            collect_scalars(c, out);
            collect_scalars(t, out);
            collect_scalars(f, out);
        }
    }
}
