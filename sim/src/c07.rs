//! cow-sim, property C07: forked `executor::Driver`s (sharing the program RC
//! and copy-on-write memory pages) stepped under a scripted interleaving with
//! fork/drop/rollback faults at step boundaries and mid-step (hook H1) and
//! environment faults (undefined scalars, unmapped bytes, zero divisors,
//! intrinsics, no enabled guard, indirect branches out of the program); every
//! driver is compared step by step with a private reference interpreter.

use crate::asm::{self, Arch, Slot};
use crate::bytemodel::{ByteModel, PermExpect};
use crate::c08::{to_hex, Region};
use crate::harness::{catch, panic_site, Counters, Violation};
use crate::ilspec::{EdgeSpec, ExprSpec, FuncSpec, InstrSpec, OpSpec};
use crate::refinterp::{self, stuck_kind, RFunc, RLoc, RProgram, RState, StepResult};
use crate::rng::{LogHash, Rng};
use crate::val::{Scalars, Val};
use falcon::executor::{Driver, Memory, State};
use falcon::il;
use falcon::memory::backing;
use falcon::memory::MemoryPermissions;
use falcon::translator::TranslationMemory;
use falcon::RC;
use num_bigint::BigUint;
use num_traits::Num;
use serde::{Deserialize, Serialize};
use std::cell::RefCell;
use std::collections::{BTreeMap, BTreeSet};
use std::rc::Rc;

#[derive(Clone, Debug, Serialize, Deserialize, PartialEq, Eq)]
pub struct Config {
    pub arch: Arch,
    pub funcs: Vec<FuncSpec>,
    /// initial scalars (name, hex, bits); a scalar the program reads may be missing (fault)
    pub scalars: Vec<(String, String, usize)>,
    pub backing: Vec<Region>,
    /// initial stores into the paged layer: (address, hex bytes), stored byte by byte
    pub stores: Vec<(u64, String)>,
    /// set_permissions calls on the paged layer (page aligned): (address, len, perms)
    pub perms: Vec<(u64, u64, u32)>,
    pub zones: Vec<(u64, u64)>,
    pub fault_free: bool,
}

#[derive(Clone, Debug, Serialize, Deserialize, PartialEq, Eq)]
pub enum Action {
    Step { p: usize, n: usize },
    Fork { p: usize, new: usize },
    Drop { p: usize },
    Observe { p: usize },
    Arm { kind: String, k: usize, victim: usize, new: usize },
    /// the user edits a driver's state between steps (state_mut): set a scalar and/or
    /// store bytes; forks share pages, so this is one more writer
    Poke { p: usize, scalar: Option<(String, String, usize)>, store: Option<(u64, String)> },
}

#[derive(Clone, Debug, Serialize, Deserialize, PartialEq, Eq)]
pub struct Script {
    pub config: Config,
    pub actions: Vec<Action>,
}

/// the shadow's byte model as the stream seam the lifters read through
struct ShadowMem<'a>(&'a ByteModel);

impl<'a> TranslationMemory for ShadowMem<'a> {
    fn permissions(&self, address: u64) -> Option<MemoryPermissions> {
        match self.0.permissions(address) {
            PermExpect::Exactly(p) => p.map(MemoryPermissions::from_bits_truncate),
            // never reached: C07 scripts set permissions on whole pages only
            PermExpect::Unspecified => None,
        }
    }
    fn get_u8(&self, address: u64) -> Option<u8> {
        self.0.byte(address)
    }
}

#[derive(Clone)]
struct Shadow {
    prog: RProgram,
    loc: RLoc,
    st: RState,
    names: BTreeSet<String>,
}

struct Party {
    driver: Option<Driver>,
    shadow: Shadow,
    depth: usize,
    wrote_since_fork: bool,
    parent: Option<usize>,
}

struct Pool {
    parties: BTreeMap<usize, Party>,
}

impl Pool {
    fn fork(&mut self, p: usize, new: usize) -> bool {
        if self.parties.contains_key(&new) {
            return false;
        }
        let child = match self.parties.get(&p) {
            Some(src) if src.driver.is_some() => Party {
                driver: src.driver.clone(),
                shadow: src.shadow.clone(),
                depth: src.depth + 1,
                wrote_since_fork: false,
                parent: Some(p),
            },
            _ => return false,
        };
        self.parties.insert(new, child);
        true
    }
}

struct Armed {
    kind: String,
    k: usize,
    victim: usize,
    new: usize,
}

struct MidOp {
    pool: Rc<RefCell<Pool>>,
    armed: Option<Armed>,
    active: bool,
    points: usize,
    fired: Option<String>,
    sites: BTreeMap<&'static str, u64>,
}

thread_local! {
    static HOOK: RefCell<Option<Box<dyn FnMut(&'static str)>>> = const { RefCell::new(None) };
}

fn hook_trampoline(site: &'static str) {
    HOOK.with(|h| {
        if let Ok(mut g) = h.try_borrow_mut() {
            if let Some(f) = g.as_mut() {
                f(site);
            }
        }
    });
}

pub struct Outcome {
    pub violation: Option<Violation>,
    pub counters: Counters,
    pub states: BTreeSet<String>,
    pub log: LogHash,
    pub ticks: u64,
    pub steps_compared: u64,
}

fn names_of_func(f: &RFunc, out: &mut BTreeSet<String>) {
    for instrs in f.blocks.values() {
        for i in instrs {
            match &i.op {
                il::Operation::Assign { dst, .. } | il::Operation::Load { dst, .. } => {
                    out.insert(dst.name().to_string());
                }
                _ => {}
            }
        }
    }
}

fn hex_bytes(s: &str) -> Vec<u8> {
    asm::unhex(s)
}

struct Exec<'a> {
    script: &'a Script,
    pool: Rc<RefCell<Pool>>,
    mid: Rc<RefCell<MidOp>>,
    universe: Vec<u64>,
    c: Counters,
    states: BTreeSet<String>,
    log: LogHash,
    ticks: u64,
    steps: u64,
}

fn op_kind(op: &il::Operation) -> &'static str {
    match op {
        il::Operation::Assign { .. } => "assign",
        il::Operation::Store { .. } => "store",
        il::Operation::Load { .. } => "load",
        il::Operation::Branch { .. } => "branch",
        il::Operation::Intrinsic { .. } => "intrinsic",
        il::Operation::Nop { .. } => "nop",
    }
}

impl<'a> Exec<'a> {
    fn new(script: &'a Script) -> Result<Exec<'a>, String> {
        let cfg = &script.config;
        let big = cfg.arch.big_endian();
        let endian = if big {
            falcon::architecture::Endian::Big
        } else {
            falcon::architecture::Endian::Little
        };
        let mut shadow_mem = ByteModel::new(big);
        let mut back = backing::Memory::new(endian.clone());
        for r in &cfg.backing {
            let d = hex_bytes(&r.data);
            if d.is_empty() {
                continue;
            }
            shadow_mem.add_backing_region(r.address, &d, r.perms);
            back.set_memory(r.address, d, MemoryPermissions::from_bits_truncate(r.perms));
        }
        shadow_mem.has_backing = true;
        let mut mem = Memory::new_with_backing(endian, RC::new(back));
        for (a, h) in &cfg.stores {
            for (i, b) in hex_bytes(h).iter().enumerate() {
                mem.store(a + i as u64, il::const_(*b as u64, 8))
                    .map_err(|e| e.to_string())?;
                shadow_mem.stored.insert(a + i as u64, *b);
            }
        }
        for &(a, l, p) in &cfg.perms {
            if l == 0 {
                continue;
            }
            mem.set_permissions(a, l, MemoryPermissions::from_bits_truncate(p));
            shadow_mem.set_permissions(a, l, p);
        }
        let mut state = State::new(mem);
        let mut scalars = Scalars::new();
        for (n, h, b) in &cfg.scalars {
            let v = Val::new(
                BigUint::from_str_radix(h, 16).map_err(|e| e.to_string())?,
                *b,
            );
            state.set_scalar(n.clone(), v.to_constant());
            scalars.insert(n.clone(), v);
        }
        let mut program = il::Program::new();
        let mut rprog = RProgram::default();
        let mut names: BTreeSet<String> = scalars.keys().cloned().collect();
        for f in &cfg.funcs {
            let func = f.build()?;
            program.add_function(func);
        }
        for f in program.functions() {
            let rf = RFunc::from_function(f);
            names_of_func(&rf, &mut names);
            rprog.funcs.push(rf);
        }
        if rprog.funcs.is_empty() {
            return Err("no function".into());
        }
        let f0 = program.function(0).ok_or("no function 0")?;
        let loc: il::ProgramLocation = match il::RefProgramLocation::from_function(f0) {
            Some(Ok(l)) => l.into(),
            _ => return Err("function 0 has no entry".into()),
        };
        let rloc = rprog.funcs[0].entry_loc(0).ok_or("no entry")?;
        let driver = Driver::new(RC::new(program), loc, state, cfg.arch.architecture());
        let mut pool = Pool {
            parties: BTreeMap::new(),
        };
        pool.parties.insert(
            0,
            Party {
                driver: Some(driver),
                shadow: Shadow {
                    prog: rprog,
                    loc: rloc,
                    st: RState {
                        scalars,
                        mem: shadow_mem,
                        intrinsics_are_nops: false,
                    },
                    names,
                },
                depth: 0,
                wrote_since_fork: false,
                parent: None,
            },
        );
        let pool = Rc::new(RefCell::new(pool));
        let mid = Rc::new(RefCell::new(MidOp {
            pool: pool.clone(),
            armed: None,
            active: false,
            points: 0,
            fired: None,
            sites: BTreeMap::new(),
        }));
        let mut universe = BTreeSet::new();
        for &(s, l) in &cfg.zones {
            for a in s..s + l {
                universe.insert(a);
            }
        }
        Ok(Exec {
            script,
            pool,
            mid,
            universe: universe.into_iter().collect(),
            c: Counters::default(),
            states: BTreeSet::new(),
            log: LogHash::new(),
            ticks: 0,
            steps: 0,
        })
    }

    fn install_hook(&self) {
        let mid = self.mid.clone();
        HOOK.with(|h| {
            *h.borrow_mut() = Some(Box::new(move |site: &'static str| {
                let mut m = mid.borrow_mut();
                *m.sites.entry(site).or_insert(0) += 1;
                if !m.active {
                    return;
                }
                m.points += 1;
                let fire = matches!(&m.armed, Some(a) if a.k == m.points);
                if fire {
                    let a = m.armed.take().unwrap();
                    let pool = m.pool.clone();
                    let mut pool = pool.borrow_mut();
                    let done = match a.kind.as_str() {
                        "drop" => pool.parties.remove(&a.victim).is_some(),
                        _ => pool.fork(a.victim, a.new),
                    };
                    if done {
                        m.fired = Some(a.kind.clone());
                    }
                }
            }));
        });
        falcon::verif::set_point_hook(Some(hook_trampoline));
    }

    fn uninstall_hook() {
        falcon::verif::set_point_hook(None);
        HOOK.with(|h| *h.borrow_mut() = None);
    }

    fn fault_label(&self) -> String {
        match &self.mid.borrow().fired {
            Some(k) => format!("midop-{}", k),
            None => "none".into(),
        }
    }

    fn driver_loc(d: &Driver) -> Result<(usize, il::FunctionLocation), String> {
        let r = d.location().apply(d.program()).map_err(|e| e.to_string())?;
        let fi = r.function().index().ok_or("function without index")?;
        Ok((fi, r.function_location().clone().into()))
    }

    fn rloc_as_falcon(prog: &RProgram, l: &RLoc) -> Option<(usize, il::FunctionLocation)> {
        Some(match *l {
            RLoc::Instr { f, b, pos } => (
                f,
                il::FunctionLocation::Instruction(b, prog.funcs.get(f)?.blocks.get(&b)?.get(pos)?.index),
            ),
            RLoc::Edge { f, head, tail } => (f, il::FunctionLocation::Edge(head, tail)),
            RLoc::Empty { f, b } => (f, il::FunctionLocation::EmptyBlock(b)),
        })
    }

    /// compare the whole observable state of a driver with its shadow
    fn observe(&mut self, d: &Driver, sh: &Shadow, memory: bool, leak: bool, ctx: &str) -> Option<Violation> {
        let arch = self.script.config.arch.name();
        for n in &sh.names {
            let got = d.state().get_scalar(n).map(Val::from_constant);
            let want = sh.st.scalars.get(n);
            if got.as_ref() != want {
                return Some(Violation::new(
                    if leak { "fork-leak" } else { "step-scalar" },
                    format!("arch={} fault={}", arch, self.fault_label()),
                    format!(
                        "{}: scalar {} is {:?}, reference has {:?}",
                        ctx,
                        n,
                        got.map(|v| v.hex()),
                        want.map(|v| v.hex())
                    ),
                ));
            }
        }
        if memory {
            for &a in &self.universe.clone() {
                let got = match catch(|| d.state().memory().load(a, 8)) {
                    Ok(Ok(g)) => g.map(|c| Val::from_constant(&c)),
                    Ok(Err(e)) => {
                        return Some(Violation::new(
                            "step-memory",
                            format!("arch={} load-error", arch),
                            format!("{}: load(0x{:x},8) Err({})", ctx, a, e),
                        ))
                    }
                    Err(p) => {
                        return Some(Violation::new("panic", format!("arch={}", arch), panic_site(&p)))
                    }
                };
                let want = sh.st.mem.byte(a).map(|b| Val::from_u64(b as u64, 8));
                if got != want {
                    return Some(Violation::new(
                        if leak { "fork-leak" } else { "step-memory" },
                        format!("arch={} fault={}", arch, self.fault_label()),
                        format!(
                            "{}: byte at 0x{:x} is {:?}, reference has {:?}",
                            ctx,
                            a,
                            got.map(|v| v.hex()),
                            want.map(|v| v.hex())
                        ),
                    ));
                }
            }
        }
        None
    }

    /// resolve an indirect branch in the shadow: candidate locations, lifting
    /// through the seam from the shadow's *current* memory when needed
    fn resolve_branch(&mut self, sh: &mut Shadow, a: u64) -> Result<Vec<RLoc>, String> {
        let cands = sh.prog.locations_of_address(a);
        if !cands.is_empty() {
            self.c.inc("branch.to-existing-instruction");
            return Ok(cands);
        }
        let t = self.script.config.arch.translator();
        let lifted = catch(|| t.translate_function(&ShadowMem(&sh.st.mem), a));
        match lifted {
            Err(p) => Err(format!("reference lift panicked: {}", panic_site(&p))),
            Ok(Err(e)) => {
                self.c.inc("branch.lift-failed");
                Err(format!("lift failed: {}", e))
            }
            Ok(Ok(f)) => {
                let rf = RFunc::from_function(&f);
                names_of_func(&rf, &mut sh.names);
                // scalars read by the lifted code that nobody defined stay undefined
                sh.prog.funcs.push(rf);
                let cands = sh.prog.locations_of_address(a);
                if cands.is_empty() {
                    self.c.inc("branch.lifted-nothing-at-target");
                    Err("lifted function has no instruction at the target".into())
                } else {
                    self.c.inc("branch.on-demand-lift");
                    let on_written_page = sh
                        .st
                        .mem
                        .stored
                        .range(a & !1023..(a & !1023) + 1024)
                        .next()
                        .is_some();
                    if on_written_page {
                        self.c.inc("branch.lift-from-written-page");
                    }
                    Ok(cands)
                }
            }
        }
    }

    /// one Driver step of party `p` compared with one reference step
    fn step_party(&mut self, pid: usize, party: &mut Party) -> Option<Violation> {
        let arch = self.script.config.arch.name();
        let d = party.driver.take()?;
        self.ticks += 1;
        self.steps += 1;
        // what is about to execute (for signatures / probes)
        let (kind, shape) = {
            let sh = &party.shadow;
            let f = &sh.prog.funcs[sh.loc.func()];
            let (b, last, kind) = match sh.loc {
                RLoc::Instr { b, pos, .. } => {
                    let instrs = &f.blocks[&b];
                    (Some(b), pos + 1 == instrs.len(), op_kind(&instrs[pos].op))
                }
                RLoc::Empty { b, .. } => (Some(b), true, "empty-block"),
                RLoc::Edge { .. } => (None, false, "edge"),
            };
            let shape = match (b, last) {
                (Some(b), true) => {
                    let out = f.out.get(&b).map(|v| v.as_slice()).unwrap_or(&[]);
                    let guarded = out.iter().filter(|e| e.cond.is_some()).count();
                    match (out.len(), guarded) {
                        (0, _) => "no-edge",
                        (1, 0) => "single-unguarded",
                        (1, 1) => "single-guarded",
                        (2, 2) => "pair",
                        (_, g) if g == out.len() => "multiway",
                        _ => "mixed",
                    }
                }
                _ => "in-block",
            };
            (kind, shape)
        };
        // memory accesses whose byte range reaches the top of the 64-bit address space are
        // outside the address assumption shared with C08 (the statement does not define
        // wrap-around; falcon's address arithmetic overflows there): not judged
        {
            let sh = &party.shadow;
            let touches_top = match sh.prog.instr(&sh.loc).map(|i| &i.op) {
                Some(il::Operation::Load { dst, index }) => crate::val::eval(index, &sh.st.scalars)
                    .ok()
                    .and_then(|a| a.to_u64())
                    .map(|a| a.checked_add(dst.bits() as u64 / 8 + 1).is_none()),
                Some(il::Operation::Store { index, src }) => {
                    match (crate::val::eval(index, &sh.st.scalars), crate::val::eval(src, &sh.st.scalars)) {
                        (Ok(a), Ok(v)) => a.to_u64().map(|a| a.checked_add(v.bits as u64 / 8 + 1).is_none()),
                        _ => None,
                    }
                }
                _ => None,
            };
            if touches_top == Some(true) {
                self.c.inc("ref.access-at-top-of-address-space-unjudged");
                return None;
            }
        }
        let sharing = {
            let pages = d.state().memory().pages();
            let mut keys: Vec<&u64> = pages.keys().collect();
            keys.sort();
            let shared = keys.iter().any(|k| RC::strong_count(&pages[*k]) > 1);
            if shared {
                "pages-shared"
            } else {
                "pages-unique"
            }
        };

        {
            let mut m = self.mid.borrow_mut();
            m.active = true;
            m.points = 0;
            m.fired = None;
        }
        let r = catch(move || d.step());
        {
            let mut m = self.mid.borrow_mut();
            m.active = false;
            if let Some(k) = m.fired.clone() {
                drop(m);
                self.c.inc(&format!("fault.midop-{}-fired", k));
            } else if m.armed.is_some() && m.points > 0 {
                m.armed = None;
                drop(m);
                self.c.inc("fault.midop-not-reached");
            }
        }
        let fault = self.fault_label();

        // reference step
        let mut sh = party.shadow.clone();
        let mut sres = refinterp::step(&sh.prog, &sh.loc, &mut sh.st);
        let mut cands: Vec<RLoc> = Vec::new();
        let mut succ = "fallthrough";
        match &sres {
            StepResult::Moved(l) => cands.push(l.clone()),
            StepResult::Branch(a) => {
                succ = "branch";
                match self.resolve_branch(&mut sh, *a) {
                    Ok(c) => cands = c,
                    Err(m) => sres = StepResult::Stuck(format!("branch target: {}", m)),
                }
            }
            _ => {}
        }
        self.c.inc(&format!("step.{}", kind));
        self.c.inc(&format!("edges.{}", shape));
        self.log.str(kind);

        // outside what the reference semantics define (arithmetic shift by more than the
        // width, reachable only through lifted machine code): C04 territory, not judged
        if matches!(&sres, StepResult::Stuck(m) if m.starts_with("undefined:")) {
            sres = StepResult::Ambiguous("reference semantics undefined here".into());
        }
        let sigbase = format!("arch={} op={} edges={} fault={}", arch, kind, shape, fault);
        let outcome;
        let result = match r {
            Err(p) => {
                outcome = "panic".to_string();
                Some(Violation::new(
                    "panic",
                    sigbase.clone(),
                    format!("party {}: Driver::step panicked: {}", pid, panic_site(&p)),
                ))
            }
            Ok(Err(e)) => {
                // the driver is consumed: the party is dead from here on
                match &sres {
                    StepResult::Stuck(m) => {
                        outcome = format!("err:{}", stuck_kind(m));
                        self.c.inc(&format!("err.{}", stuck_kind(m)));
                        self.log.str("err");
                        None
                    }
                    StepResult::Ambiguous(_) => {
                        outcome = "unjudged".into();
                        self.c.inc("ref.ambiguous-unjudged");
                        None
                    }
                    _ => {
                        outcome = "err-unexpected".into();
                        Some(Violation::new(
                            "step-error",
                            sigbase.clone(),
                            format!(
                                "party {}: Driver::step returned Err({}) where the reference moves to {:?}",
                                pid, e, cands
                            ),
                        ))
                    }
                }
            }
            Ok(Ok(nd)) => match &sres {
                StepResult::Stuck(m) => {
                    outcome = "ok-expected-err".into();
                    Some(Violation::new(
                        "ok-expected-err",
                        format!("{} stuck={}", sigbase, stuck_kind(m)),
                        format!(
                            "party {}: Driver::step returned Ok (now at {}) although the reference is stuck: {}",
                            pid,
                            nd.location(),
                            m
                        ),
                    ))
                }
                StepResult::Ambiguous(_) => {
                    outcome = "unjudged".into();
                    self.c.inc("ref.ambiguous-unjudged");
                    None
                }
                _ => {
                    outcome = format!("ok:{}", succ);
                    let got = Self::driver_loc(&nd);
                    let matched = match &got {
                        Ok(g) => cands
                            .iter()
                            .find(|c| Self::rloc_as_falcon(&sh.prog, c).as_ref() == Some(g))
                            .cloned(),
                        Err(_) => None,
                    };
                    match matched {
                        None => Some(Violation::new(
                            if succ == "branch" { "lift-target" } else { "step-location" },
                            sigbase.clone(),
                            format!(
                                "party {}: Driver is at {:?}, reference expects one of {:?}",
                                pid, got, cands
                            ),
                        )),
                        Some(l) => {
                            sh.loc = l;
                            self.log.str(&format!("{:?}", sh.loc));
                            // function count must agree too (an on-demand lift adds exactly one)
                            let v = if nd.program().functions().len() != sh.prog.funcs.len() {
                                Some(Violation::new(
                                    "lift-target",
                                    sigbase.clone(),
                                    format!(
                                        "party {}: program has {} functions, reference {}",
                                        pid,
                                        nd.program().functions().len(),
                                        sh.prog.funcs.len()
                                    ),
                                ))
                            } else {
                                let mem = kind == "store" || self.steps % 16 == 0;
                                self.observe(&nd, &sh, mem, false, &format!("party {} after {}", pid, kind))
                            };
                            if kind == "store" {
                                party.wrote_since_fork = true;
                            }
                            party.driver = Some(nd);
                            party.shadow = sh;
                            v
                        }
                    }
                }
            },
        };
        self.states.insert(format!(
            "{}|{}|{}|{}|depth{}|{}",
            kind,
            shape,
            outcome,
            sharing,
            party.depth.min(3),
            fault
        ));
        result
    }

    fn sweep_others(&mut self, except: usize, ctx: &str) -> Option<Violation> {
        let ids: Vec<usize> = self.pool.borrow().parties.keys().copied().collect();
        for id in ids {
            if id == except {
                continue;
            }
            let party = self.pool.borrow_mut().parties.remove(&id);
            if let Some(party) = party {
                let r = match &party.driver {
                    Some(d) => self.observe(d, &party.shadow, true, true, &format!("{} (party {})", ctx, id)),
                    None => None,
                };
                self.pool.borrow_mut().parties.insert(id, party);
                if r.is_some() {
                    return r;
                }
            }
        }
        None
    }

    fn run_action(&mut self, idx: usize, act: &Action) -> Option<Violation> {
        self.log.u64(idx as u64);
        let ff = self.script.config.fault_free;
        match act {
            Action::Arm { kind, k, victim, new } => {
                if ff {
                    return None;
                }
                self.mid.borrow_mut().armed = Some(Armed {
                    kind: kind.clone(),
                    k: *k,
                    victim: *victim,
                    new: *new,
                });
                self.c.inc("fault.midop-armed");
                None
            }
            Action::Step { p, n } => {
                for _ in 0..*n {
                    let mut party = self.pool.borrow_mut().parties.remove(p)?;
                    if party.driver.is_none() {
                        self.pool.borrow_mut().parties.insert(*p, party);
                        return None;
                    }
                    let v = self.step_party(*p, &mut party);
                    let died = party.driver.is_none();
                    self.pool.borrow_mut().parties.insert(*p, party);
                    if v.is_some() {
                        return v;
                    }
                    if died {
                        // a failed step must not have leaked into any sibling
                        self.c.inc("sweeps.after-error");
                        if let Some(v) = self.sweep_others(*p, "after a sibling's failed step") {
                            return Some(v);
                        }
                        break;
                    }
                }
                None
            }
            Action::Fork { p, new } => {
                if ff || self.pool.borrow().parties.len() >= 8 {
                    return None;
                }
                match catch(|| self.pool.borrow_mut().fork(*p, *new)) {
                    Ok(true) => {
                        self.ticks += 1;
                        self.c.inc("fault.fork-at-boundary");
                        self.log.str("fork");
                    }
                    Ok(false) => {}
                    Err(pm) => {
                        return Some(Violation::new("panic", "clone".into(), panic_site(&pm)))
                    }
                }
                None
            }
            Action::Drop { p } => {
                if ff || self.pool.borrow().parties.len() <= 1 {
                    return None;
                }
                let party = self.pool.borrow_mut().parties.remove(p)?;
                self.ticks += 1;
                self.log.str("drop");
                let parent_alive = party
                    .parent
                    .map(|pp| self.pool.borrow().parties.contains_key(&pp))
                    .unwrap_or(false);
                if party.wrote_since_fork && parent_alive {
                    self.c.inc("fault.rollback");
                } else {
                    self.c.inc("fault.drop-at-boundary");
                }
                if let Err(pm) = catch(move || drop(party)) {
                    return Some(Violation::new("panic", "drop".into(), panic_site(&pm)));
                }
                None
            }
            Action::Poke { p, scalar, store } => {
                let mut party = self.pool.borrow_mut().parties.remove(p)?;
                self.ticks += 1;
                let mut v = None;
                if let Some(d) = party.driver.as_mut() {
                    self.c.inc("op.poke");
                    self.log.str("poke");
                    if let Some((n, h, b)) = scalar {
                        if let Ok(x) = BigUint::from_str_radix(h, 16) {
                            let val = Val::new(x, *b);
                            d.state_mut().set_scalar(n.clone(), val.to_constant());
                            party.shadow.st.scalars.insert(n.clone(), val);
                            party.shadow.names.insert(n.clone());
                        }
                    }
                    if let Some((a, h)) = store {
                        for (i, byte) in hex_bytes(h).iter().enumerate() {
                            let r = catch(|| d.state_mut().memory_mut().store(a + i as u64, il::const_(*byte as u64, 8)));
                            match r {
                                Ok(Ok(())) => {
                                    party.shadow.st.mem.stored.insert(a + i as u64, *byte);
                                }
                                Ok(Err(e)) => v = Some(Violation::new("step-memory", "poke store-error".into(), e.to_string())),
                                Err(pm) => v = Some(Violation::new("panic", "poke".into(), panic_site(&pm))),
                            }
                        }
                        party.wrote_since_fork = true;
                    }
                }
                self.pool.borrow_mut().parties.insert(*p, party);
                v
            }
            Action::Observe { p } => {
                let party = self.pool.borrow_mut().parties.remove(p)?;
                self.ticks += 1;
                self.c.inc("observes");
                let r = match &party.driver {
                    Some(d) => self.observe(d, &party.shadow, true, true, &format!("observe party {}", p)),
                    None => None,
                };
                self.pool.borrow_mut().parties.insert(*p, party);
                r
            }
        }
    }
}

pub fn execute(script: &Script) -> Outcome {
    let mut ex = match Exec::new(script) {
        Ok(e) => e,
        Err(m) => {
            let mut c = Counters::default();
            c.inc("runs.unbuildable-script");
            return Outcome {
                violation: None,
                counters: c,
                states: BTreeSet::new(),
                log: LogHash::new(),
                ticks: 0,
                steps_compared: 0,
            }
            .note(m);
        }
    };
    ex.install_hook();
    let mut violation = None;
    for (i, a) in script.actions.iter().enumerate() {
        if let Some(v) = ex.run_action(i, a) {
            violation = Some(v);
            break;
        }
    }
    if violation.is_none() {
        violation = ex.sweep_others(usize::MAX, "final sweep");
    }
    Exec::uninstall_hook();
    for (k, v) in ex.mid.borrow().sites.iter() {
        ex.c.add(&format!("points.{}", k), *v);
    }
    if script.config.fault_free {
        ex.c.inc("runs.fault-free");
    } else {
        ex.c.inc("runs.fault-injecting");
    }
    Outcome {
        violation,
        counters: ex.c,
        states: ex.states,
        log: ex.log,
        ticks: ex.ticks,
        steps_compared: ex.steps,
    }
}

impl Outcome {
    fn note(self, _m: String) -> Outcome {
        self
    }
}

// ---------------------------------------------------------------- generation

const SC: &[(&str, usize)] = &[
    ("ga", 32),
    ("gb", 32),
    ("gc", 8),
    ("gd", 64),
    ("ge", 16),
    ("gw", 128),
    ("gx", 256),
    ("gf", 1),
    ("gg", 1),
    ("gp", 64),
    ("gq", 64),
];
const WIDTHS: &[usize] = &[1, 8, 16, 32, 64, 128, 256];

struct Gen<'a> {
    rng: &'a mut Rng,
    allow_div_fault: bool,
    data: u64,
}

impl<'a> Gen<'a> {
    fn constant(&mut self, bits: usize) -> ExprSpec {
        if bits < 8 {
            return ExprSpec::cu(self.rng.below(1 << bits), bits);
        }
        let nbytes = bits.div_ceil(8);
        let b = self.rng.corner_bytes(nbytes);
        ExprSpec::c(&Val::new(BigUint::from_bytes_be(&b), bits))
    }

    fn leaf(&mut self, bits: usize) -> ExprSpec {
        let same: Vec<&(&str, usize)> = SC.iter().filter(|s| s.1 == bits && s.0 != "gp" && s.0 != "gq").collect();
        if !same.is_empty() && self.rng.chance(3, 5) {
            let s = self.rng.pick(&same);
            ExprSpec::s(s.0, s.1)
        } else {
            self.constant(bits)
        }
    }

    fn expr(&mut self, bits: usize, depth: usize) -> ExprSpec {
        if depth == 0 || self.rng.chance(1, 3) {
            return self.leaf(bits);
        }
        let d = depth - 1;
        match self.rng.below(10) {
            0..=2 => {
                let op = *self.rng.pick(&["add", "sub", "mul", "and", "or", "xor"]);
                ExprSpec::b(op, self.expr(bits, d), self.expr(bits, d))
            }
            3 if bits > 1 => {
                let op = *self.rng.pick(&["shl", "shr", "ashr"]);
                let max = if op == "ashr" { bits as u64 } else { bits as u64 + 2 };
                let max = max.min((1u64 << bits.min(16)) - 1);
                let amount = match self.rng.below(4) {
                    // any amount: corner constants of the full width (2^64 and beyond for wide
                    // operands), or whatever an expression evaluates to
                    0 => self.constant(bits),
                    1 => self.expr(bits, d),
                    _ => ExprSpec::cu(self.rng.range(0, max), bits),
                };
                ExprSpec::b(op, self.expr(bits, d), amount)
            }
            4 if bits > 1 => {
                let op = *self.rng.pick(&["divu", "modu", "divs", "mods"]);
                let divisor = if self.allow_div_fault && self.rng.chance(1, 4) {
                    self.expr(bits, d)
                } else {
                    let mut c = self.constant(bits);
                    if let ExprSpec::C(h, _) = &c {
                        if h.chars().all(|x| x == '0') {
                            c = ExprSpec::cu(3, bits);
                        }
                    }
                    c
                };
                ExprSpec::b(op, self.expr(bits, d), divisor)
            }
            5 if bits == 1 => {
                let w = *self.rng.pick(&[8usize, 16, 32, 64, 128, 256]);
                let op = *self.rng.pick(&["cmpeq", "cmpneq", "cmpltu", "cmplts"]);
                ExprSpec::b(op, self.expr(w, d), self.expr(w, d))
            }
            6 => {
                let smaller: Vec<usize> = WIDTHS.iter().copied().filter(|w| *w < bits).collect();
                if smaller.is_empty() {
                    self.leaf(bits)
                } else {
                    let w = *self.rng.pick(&smaller);
                    let op = if bits % 8 == 0 && self.rng.chance(1, 2) { "sext" } else { "zext" };
                    ExprSpec::x(op, bits, self.expr(w, d))
                }
            }
            7 => {
                let larger: Vec<usize> = WIDTHS.iter().copied().filter(|w| *w > bits).collect();
                if larger.is_empty() {
                    self.leaf(bits)
                } else {
                    let w = *self.rng.pick(&larger);
                    ExprSpec::x("trun", bits, self.expr(w, d))
                }
            }
            8 => ExprSpec::ite(self.expr(1, d), self.expr(bits, d), self.expr(bits, d)),
            _ => self.leaf(bits),
        }
    }

    /// an address expression landing in (or just outside) the data zone
    fn address(&mut self, bytes: u64) -> ExprSpec {
        let off = self.rng.below(64u64.saturating_sub(bytes).max(1));
        if self.rng.chance(1, 16) {
            // an index computed at 128 bits; with the high part set it must be an error
            let wide = ExprSpec::b("add", ExprSpec::x("zext", 128, ExprSpec::s("gp", 64)), ExprSpec::cu(off, 128));
            return if self.allow_div_fault && self.rng.chance(1, 3) {
                ExprSpec::b("or", wide, ExprSpec::C("10000000000000000".into(), 128))
            } else {
                wide
            };
        }
        match self.rng.below(5) {
            0 => ExprSpec::cu((self.data + off) & 0xffff_ffff, 32),
            1 => ExprSpec::b("add", ExprSpec::s("gp", 64), ExprSpec::cu(off, 64)),
            2 => ExprSpec::b(
                "add",
                ExprSpec::x(
                    "zext",
                    64,
                    ExprSpec::b("and", ExprSpec::s("ga", 32), ExprSpec::cu(0x1f, 32)),
                ),
                ExprSpec::cu(self.data + (off & 0x1f), 64),
            ),
            _ => ExprSpec::cu(self.data + off, 64),
        }
    }
}

/// a small liftable machine-code routine for on-demand lifting
fn code_bytes(rng: &mut Rng, arch: Arch, at: u64) -> Vec<u8> {
    let mut slots: Vec<Slot> = Vec::new();
    let n = rng.range(1, 5);
    let straight = crate::c06::straight_units(arch);
    if arch.is_mips() && rng.chance(1, 6) {
        // syscall / break / teq: the lifter turns them into intrinsics with empty lists
        let w: u32 = *rng.pick(&[0x0000_000cu32, 0x0000_000d, 0x0085_0034]);
        let b = if arch == Arch::Mips { w.to_be_bytes() } else { w.to_le_bytes() };
        slots.push(Slot::Raw(asm::hex(&b)));
    }
    for _ in 0..n {
        if !straight.is_empty() && rng.chance(1, 3) {
            // an instruction harvested from falcon's own lifter tests: richer IL for the
            // executor (wide values, multi-block instruction graphs)
            slots.push(Slot::Raw(rng.pick(&straight).clone()));
            continue;
        }
        slots.push(Slot::Op {
            form: rng.below(asm::num_forms(arch) as u64) as u8,
            a: rng.below(8) as u8,
            b: rng.below(8) as u8,
            c: rng.below(8) as u8,
            imm: rng.next() as u32,
        });
    }
    slots.push(Slot::Term {
        kind: rng.below(3) as u8,
        a: rng.below(8) as u8,
        delay: None,
    });
    let mut out = Vec::new();
    for s in &slots {
        let a = at + out.len() as u64;
        out.extend(asm::encode(arch, s, a, a));
    }
    out
}

pub const CODE: u64 = 0x40_0000;

pub fn generate(run_seed: u64, index: u64) -> Script {
    let mut rng = Rng::new(run_seed);
    let fault_free = index % 4 == 0;
    let arch = *rng.pick(&asm::ALL_ARCHS);
    let data: u64 = *rng.pick(&[0x3d8u64, 0x7d8, 0x1_0000_03d8]);
    let allow_div_fault = !fault_free && rng.chance(1, 2);

    // memory image
    let mut backing = Vec::new();
    let mut stores = Vec::new();
    let mut perms = Vec::new();
    // data (the zone straddles a page boundary at data+40). Layout A: backing covers
    // [data+8, data+40), i.e. only the first page; stores cover the rest. Layout B: the
    // backing covers the whole zone across the boundary, the first page is never written,
    // and stores overlay part of the second page only - a load crossing the boundary then
    // mixes pristine backing bytes with stored ones.
    let whole_backing = rng.chance(1, 3);
    backing.push(if whole_backing {
        Region { address: data, data: to_hex(&rng.bytes(64)), perms: 3 }
    } else {
        Region { address: data + 8, data: to_hex(&rng.bytes(32)), perms: 3 }
    });
    let hole_free = fault_free || rng.chance(1, 2);
    if whole_backing {
        for _ in 0..rng.range(0, 3) {
            let a = data + 40 + rng.below(20);
            let l = rng.range(1, 6).min(data + 64 - a);
            stores.push((a, to_hex(&rng.bytes(l as usize))));
        }
    } else if hole_free {
        stores.push((data, to_hex(&rng.bytes(8))));
        stores.push((data + 40, to_hex(&rng.bytes(24))));
    } else {
        for _ in 0..rng.range(0, 4) {
            let a = data + rng.below(60);
            let l = rng.range(1, 6).min(data + 64 - a);
            stores.push((a, to_hex(&rng.bytes(l as usize))));
        }
    }
    // code: one or two routines in executable backing; half of the time laid out across a
    // page boundary of the copy-on-write memory so that a lift starting in one page runs
    // into the next
    let align = arch.insn_align();
    let code = if rng.chance(1, 2) {
        CODE + 0x400 - align * rng.range(1, if arch.is_x86() { 40 } else { 10 })
    } else {
        CODE
    };
    let mut code_targets = Vec::new();
    let r1 = code_bytes(&mut rng, arch, code);
    let r1_len = r1.len() as u64;
    let r2_at = code + ((r1_len + 15) & !15);
    let r2 = code_bytes(&mut rng, arch, r2_at);
    let mut image = r1.clone();
    image.resize((r2_at - code) as usize, 0);
    image.extend(&r2);
    code_targets.push(code);
    code_targets.push(r2_at);
    let code_perms = if !fault_free && rng.chance(1, 10) { 3 } else { 5 };
    backing.push(Region {
        address: code,
        data: to_hex(&image),
        perms: code_perms,
    });
    // the code has been written to since it was mapped: the same bytes re-stored, or a
    // different routine patched in at some instruction boundary (the lifter must see the
    // current bytes, wherever the patch is relative to the branch target)
    let mut patch_sites: Vec<(u64, Vec<u8>)> = Vec::new();
    for _ in 0..rng.range(0, 2) {
        let off = (rng.below(image.len() as u64) / align) * align;
        let patch = if rng.chance(1, 3) {
            image[off as usize..(off as usize + 4).min(image.len())].to_vec()
        } else {
            code_bytes(&mut rng, arch, code + off)
        };
        patch_sites.push((code + off, patch));
    }
    for (a, pbytes) in &patch_sites {
        if rng.chance(1, 2) {
            stores.push((*a, to_hex(pbytes)));
        }
    }
    if !fault_free && rng.chance(1, 6) {
        // permissions set on the paged layer for the code pages
        perms.push((CODE, 2048, *rng.pick(&[5u32, 7, 1, 4])));
    }

    // initial scalars
    let mut scalars = Vec::new();
    let undefined_rate = if fault_free { 0 } else { *rng.pick(&[0u64, 0, 5, 15]) };
    for (n, b) in SC {
        if rng.below(100) < undefined_rate {
            continue;
        }
        let v = match *n {
            "gp" => Val::from_u64(data + rng.below(16), 64),
            "gq" => {
                let t = match rng.below(4) {
                    0 => *rng.pick(&code_targets),
                    1 => 0x10_0000 + 4 * rng.below(12),
                    2 => 0x6666_0000,
                    _ => *rng.pick(&code_targets),
                };
                Val::from_u64(t, 64)
            }
            _ => {
                if *b < 8 {
                    Val::from_u64(rng.below(2), *b)
                } else {
                    Val::new(BigUint::from_bytes_be(&rng.corner_bytes(b / 8)), *b)
                }
            }
        };
        scalars.push((n.to_string(), format!("{:x}", v.v), *b));
    }
    let mut regs: Vec<(String, usize)> = asm::reg_names(arch).iter().map(|(n, b)| (n.to_string(), *b)).collect();
    match arch.family() {
        "x86" => {
            if arch == Arch::Amd64 {
                for k in 8..16 {
                    regs.push((format!("r{}", k), 64));
                }
            }
            for k in 0..8 {
                regs.push((format!("xmm{}", k), 128));
            }
            regs.push(("fs_base".into(), arch.addr_bits()));
            regs.push(("gs_base".into(), arch.addr_bits()));
        }
        "mips" => {
            for n in ["$a1", "$a2", "$a3", "$v1", "$s1", "$s2", "$sp", "$gp", "$at"] {
                regs.push((n.to_string(), 32));
            }
        }
        "aarch64" => {
            for k in 6..19 {
                regs.push((format!("x{}", k), 64));
            }
            for k in 0..8 {
                regs.push((format!("v{}", k), 128));
            }
        }
        _ => {}
    }
    for (n, b) in regs.iter().map(|(n, b)| (n.as_str(), *b)) {
        if rng.below(100) < undefined_rate {
            continue;
        }
        let v = if n == asm::base_reg(arch) || Some(n) == asm::stack_reg(arch) {
            Val::from_u64(data + 16, b)
        } else if b == 1 {
            Val::from_u64(rng.below(2), 1)
        } else if b > 64 {
            Val::new(BigUint::from_bytes_be(&rng.bytes(b / 8)), b)
        } else if b == arch.addr_bits() && rng.chance(1, 3) {
            Val::from_u64(data + rng.below(32), b)
        } else {
            Val::new(BigUint::from(rng.corner64()), b)
        };
        scalars.push((n.to_string(), format!("{:x}", v.v), b));
    }

    // self-modification by the program itself: 32-bit words of the patch routines
    let mut patch_words: Vec<(u64, Val)> = Vec::new();
    for (a, pbytes) in &patch_sites {
        for (k, chunk) in pbytes.chunks(4).enumerate() {
            if chunk.len() == 4 {
                let v = if arch.big_endian() { Val::from_be_bytes(chunk) } else { Val::from_le_bytes(chunk) };
                patch_words.push((*a + 4 * k as u64, v));
            }
        }
    }
    // program
    let nfuncs = if rng.chance(1, 4) { 2 } else { 1 };
    let mut funcs = Vec::new();
    let mut next_addr = 0x10_0000u64;
    let mut g = Gen {
        rng: &mut rng,
        allow_div_fault,
        data,
    };
    for fi in 0..nfuncs {
        let nblocks = g.rng.range(1, 8) as usize;
        let mut blocks: Vec<Vec<InstrSpec>> = Vec::new();
        let mut edges: Vec<EdgeSpec> = Vec::new();
        for bi in 0..nblocks {
            let n = if g.rng.chance(1, 5) { g.rng.range(4, 7) } else { g.rng.range(0, 4) };
            let mut instrs = Vec::new();
            for _ in 0..n {
                let op = match g.rng.below(20) {
                    0..=10 => {
                        let s = *g.rng.pick(&SC[..9]);
                        OpSpec::Assign(s.0.into(), s.1, g.expr(s.1, 3))
                    }
                    11..=13 => {
                        let w = *g.rng.pick(&[8usize, 16, 32, 64, 128, 256]);
                        let a = g.address(w as u64 / 8);
                        OpSpec::Store(a, g.expr(w, 2))
                    }
                    14..=16 => {
                        let s = *g.rng.pick(&[("ga", 32usize), ("gb", 32), ("gc", 8), ("gd", 64), ("ge", 16), ("gw", 128), ("gx", 256)]);
                        let a = g.address(s.1 as u64 / 8);
                        OpSpec::Load(s.0.into(), s.1, a)
                    }
                    17 if g.rng.chance(1, 2) => OpSpec::Nop,
                    17 => {
                        // a placeholder nop, as lifters leave for direct jumps: whatever it
                        // wraps (a branch to an address that exists in the program or not, a
                        // store, an assignment) must not happen
                        let inner = match g.rng.below(4) {
                            0 => OpSpec::Branch(ExprSpec::cu(0x10_0000 + 4 * g.rng.below(40), 64)),
                            1 => OpSpec::Branch(ExprSpec::cu(g.rng.next() & 0xffff_fff0, 64)),
                            2 => {
                                let s = *g.rng.pick(&SC[..9]);
                                OpSpec::Assign(s.0.into(), s.1, g.expr(s.1, 1))
                            }
                            _ => OpSpec::Store(g.address(4), g.expr(32, 1)),
                        };
                        OpSpec::Placeholder(Box::new(inner))
                    }
                    18 if !fault_free && g.rng.chance(1, 3) => match g.rng.below(3) {
                        0 => OpSpec::Intrinsic,
                        1 => OpSpec::IntrinsicWithLists(false),
                        _ => OpSpec::IntrinsicWithLists(true),
                    },
                    18 if !patch_words.is_empty() => {
                        let (a, w) = patch_words[g.rng.usize_below(patch_words.len())].clone();
                        OpSpec::Store(ExprSpec::cu(a, 64), ExprSpec::c(&w))
                    }
                    _ => {
                        // pointer bump keeps addresses moving across the page boundary
                        OpSpec::Assign("gp".into(), 64, ExprSpec::b("add", ExprSpec::s("gp", 64), ExprSpec::cu(g.rng.range(1, 9), 64)))
                    }
                };
                let address = if g.rng.chance(4, 5) {
                    let a = next_addr;
                    next_addr += 4;
                    Some(a)
                } else {
                    None
                };
                instrs.push(InstrSpec { op, address });
            }
            // block exit shape
            let pick_tail = |rng: &mut Rng| rng.usize_below(nblocks);
            match g.rng.below(12) {
                0..=3 => {
                    // complementary pair
                    let c = g.expr(1, 2);
                    let (t1, mut t2) = (pick_tail(g.rng), pick_tail(g.rng));
                    if t1 == t2 {
                        t2 = (t1 + 1) % nblocks;
                    }
                    if t1 != t2 {
                        edges.push(EdgeSpec { head: bi, tail: t1, cond: Some(c.clone()) });
                        edges.push(EdgeSpec { head: bi, tail: t2, cond: Some(ExprSpec::b("cmpeq", c, ExprSpec::cu(0, 1))) });
                    } else {
                        edges.push(EdgeSpec { head: bi, tail: t1, cond: None });
                    }
                }
                4 | 5 if nblocks >= 3 => {
                    // three-way partition of a 32-bit scalar
                    let x = ExprSpec::s(*g.rng.pick(&["ga", "gb"]), 32);
                    let c1 = g.rng.next() as u32 as u64 / 2;
                    let c2 = c1 + 1 + g.rng.below(0x7000_0000);
                    let lt1 = ExprSpec::b("cmpltu", x.clone(), ExprSpec::cu(c1, 32));
                    let lt2 = ExprSpec::b("cmpltu", x.clone(), ExprSpec::cu(c2, 32));
                    let mut tails: Vec<usize> = (0..nblocks).collect();
                    g.rng.shuffle(&mut tails);
                    edges.push(EdgeSpec { head: bi, tail: tails[0], cond: Some(lt1.clone()) });
                    edges.push(EdgeSpec {
                        head: bi,
                        tail: tails[1],
                        cond: Some(ExprSpec::b("and", ExprSpec::b("cmpeq", lt1, ExprSpec::cu(0, 1)), lt2.clone())),
                    });
                    edges.push(EdgeSpec { head: bi, tail: tails[2], cond: Some(ExprSpec::b("cmpeq", lt2, ExprSpec::cu(0, 1))) });
                }
                6 | 7 => {
                    // indirect branch terminator
                    let t = match g.rng.below(7) {
                        // a target computed in a 128-bit temporary: fine while the value fits
                        // 64 bits, an error (not a truncated address) when it does not
                        6 => {
                            let wide = ExprSpec::x("zext", 128, ExprSpec::s("gq", 64));
                            if !fault_free && g.rng.chance(1, 2) {
                                ExprSpec::b("add", wide, ExprSpec::C("10000000000000000".into(), 128))
                            } else {
                                wide
                            }
                        }
                        0 => ExprSpec::s("gq", 64),
                        1 => ExprSpec::cu(*g.rng.pick(&code_targets), 64),
                        2 => ExprSpec::cu(*g.rng.pick(&code_targets) & 0xffff_ffff, 32),
                        3 if !fault_free => ExprSpec::cu(0x6666_0000, 64),
                        _ => ExprSpec::cu(0x10_0000 + 4 * g.rng.below(((next_addr - 0x10_0000) / 4).max(1)), 64),
                    };
                    let address = Some(next_addr);
                    next_addr += 4;
                    instrs.push(InstrSpec { op: OpSpec::Branch(t), address });
                }
                8 if !fault_free => {
                    // fault: a single guarded edge / a gap in the guards
                    let c = g.expr(1, 2);
                    edges.push(EdgeSpec { head: bi, tail: pick_tail(g.rng), cond: Some(c) });
                }
                9 if !fault_free && g.rng.chance(1, 3) => { /* fault: no outgoing edge */ }
                _ => {
                    edges.push(EdgeSpec { head: bi, tail: pick_tail(g.rng), cond: None });
                }
            }
            blocks.push(instrs);
        }
        // sometimes remove instructions again (never a block's last one, which may be the
        // Branch terminator): instruction indices then differ from positions
        let mut removed = Vec::new();
        if g.rng.chance(1, 3) {
            let mut lens: Vec<usize> = blocks.iter().map(|b| b.len()).collect();
            for _ in 0..g.rng.range(1, 3) {
                let b = g.rng.usize_below(nblocks);
                if lens[b] >= 2 {
                    let pos = g.rng.usize_below(lens[b] - 1);
                    removed.push((b, pos));
                    lens[b] -= 1;
                }
            }
        }
        // sometimes move an instruction inside its block afterwards (never the last one,
        // which may be the Branch terminator): indices are then not ascending
        let mut moved = Vec::new();
        if g.rng.chance(1, 5) {
            let lens: Vec<usize> = blocks.iter().map(|b| b.len()).collect();
            // lengths after the removals above
            let mut eff = lens.clone();
            for &(b, _) in &removed {
                eff[b] = eff[b].saturating_sub(1);
            }
            let b = g.rng.usize_below(nblocks);
            if eff[b] >= 3 {
                let from = g.rng.usize_below(eff[b] - 1);
                let to = g.rng.usize_below(eff[b] - 1);
                if from != to {
                    moved.push((b, from, to));
                }
            }
        }
        // and sometimes append an instruction to a block instructions were removed from (never
        // behind a Branch terminator): it must get an index no surviving instruction has
        let mut appended = Vec::new();
        if !removed.is_empty() && g.rng.chance(2, 3) {
            for &(b, _) in &removed {
                if matches!(blocks[b].last().map(|i| &i.op), Some(OpSpec::Branch(_))) || !g.rng.chance(2, 3) {
                    continue;
                }
                let sc = *g.rng.pick(&SC[..9]);
                let op = if g.rng.chance(1, 4) { OpSpec::Nop } else { OpSpec::Assign(sc.0.into(), sc.1, g.expr(sc.1, 2)) };
                appended.push((b, InstrSpec { op, address: Some(0x17_0000 + 4 * appended.len() as u64) }));
            }
        }
        funcs.push(FuncSpec {
            address: 0x10_0000 + 0x1000 * fi as u64 + 0x8_0000,
            blocks,
            edges,
            entry: 0,
            removed,
            moved,
            appended,
        });
    }

    // script
    let len = rng.range(2, 30) as usize;
    let mut actions = Vec::new();
    let mut live = vec![0usize];
    let mut next_id = 1usize;
    while actions.len() < len {
        let p = *rng.pick(&live);
        match rng.below(if fault_free { 5 } else { 12 }) {
            0..=4 => actions.push(Action::Step { p, n: rng.range(1, 12) as usize }),
            5 | 6 => {
                if live.len() < 8 {
                    actions.push(Action::Fork { p, new: next_id });
                    live.push(next_id);
                    next_id += 1;
                }
            }
            7 => {
                if live.len() > 1 {
                    let victim = if rng.chance(1, 2) { *live.last().unwrap() } else { p };
                    actions.push(Action::Drop { p: victim });
                    live.retain(|x| *x != victim);
                }
            }
            8 if rng.chance(1, 2) => actions.push(Action::Observe { p }),
            8 => {
                let scalar = if rng.chance(2, 3) {
                    let sc = *rng.pick(&SC[..9]);
                    let v = if sc.1 < 8 {
                        Val::from_u64(rng.below(2), sc.1)
                    } else {
                        Val::new(BigUint::from_bytes_be(&rng.corner_bytes(sc.1 / 8)), sc.1)
                    };
                    Some((sc.0.to_string(), format!("{:x}", v.v), sc.1))
                } else {
                    None
                };
                let store = if rng.chance(1, 2) {
                    let a = data + rng.below(60);
                    let n = rng.range(1, 4).min(data + 64 - a) as usize;
                    Some((a, to_hex(&rng.bytes(n))))
                } else {
                    None
                };
                actions.push(Action::Poke { p, scalar, store });
            }
            _ => {
                if live.len() > 1 {
                    let victim = *rng.pick(&live);
                    let k = rng.range(1, 5) as usize;
                    if rng.chance(1, 2) {
                        actions.push(Action::Arm { kind: "drop".into(), k, victim, new: 0 });
                    } else if live.len() < 8 {
                        actions.push(Action::Arm { kind: "fork".into(), k, victim, new: next_id });
                        live.push(next_id);
                        next_id += 1;
                    }
                    let q = *rng.pick(&live);
                    actions.push(Action::Step { p: q, n: rng.range(1, 6) as usize });
                }
            }
        }
    }
    Script {
        config: Config {
            arch,
            funcs,
            scalars,
            backing,
            stores,
            perms,
            zones: vec![(data, 64), (code, 64)],
            fault_free,
        },
        actions,
    }
}

// ---------------------------------------------------------------- minimisation

pub fn minimise(script: &Script, class: &str) -> Script {
    let same = |s: &Script| matches!(execute(s).violation, Some(v) if v.class == class);
    let cfg = script.config.clone();
    let actions = crate::harness::ddmin(script.actions.clone(), |acts| {
        same(&Script { config: cfg.clone(), actions: acts.to_vec() })
    });
    let mut best = Script { config: cfg, actions };
    // fewer steps per Step action
    for i in 0..best.actions.len() {
        if let Action::Step { p, n } = best.actions[i].clone() {
            let mut lo = n;
            while lo > 1 {
                let mut cand = best.clone();
                cand.actions[i] = Action::Step { p, n: lo - 1 };
                if same(&cand) {
                    best = cand;
                    lo -= 1;
                } else {
                    break;
                }
            }
        }
    }
    // drop the second function, then instructions, edges, initial stores, scalars
    if best.config.funcs.len() > 1 {
        let mut cand = best.clone();
        cand.config.funcs.truncate(1);
        if same(&cand) {
            best = cand;
        }
    }
    for fi in 0..best.config.funcs.len() {
        for bi in 0..best.config.funcs[fi].blocks.len() {
            let mut ii = 0;
            while ii < best.config.funcs[fi].blocks[bi].len() {
                let mut cand = best.clone();
                cand.config.funcs[fi].blocks[bi].remove(ii);
                if same(&cand) {
                    best = cand;
                } else {
                    ii += 1;
                }
            }
        }
        let mut ei = 0;
        while ei < best.config.funcs[fi].edges.len() {
            let mut cand = best.clone();
            cand.config.funcs[fi].edges.remove(ei);
            if same(&cand) {
                best = cand;
            } else {
                ei += 1;
            }
        }
    }
    let mut si = 0;
    while si < best.config.stores.len() {
        let mut cand = best.clone();
        cand.config.stores.remove(si);
        if same(&cand) {
            best = cand;
        } else {
            si += 1;
        }
    }
    let mut si = 0;
    while si < best.config.scalars.len() {
        let mut cand = best.clone();
        cand.config.scalars.remove(si);
        if same(&cand) {
            best = cand;
        } else {
            si += 1;
        }
    }
    // expression shrinking: replace an instruction's expression by one of its children
    fn shrink_expr(e: &ExprSpec) -> Vec<ExprSpec> {
        let mut v = Vec::new();
        for c in e.children() {
            if c.bits() == e.bits() {
                v.push(c.clone());
            }
        }
        if !matches!(e, ExprSpec::C(..)) {
            v.push(ExprSpec::cu(1, e.bits()));
        }
        v
    }
    let mut progress = true;
    let mut rounds = 0;
    while progress && rounds < 6 {
        progress = false;
        rounds += 1;
        for fi in 0..best.config.funcs.len() {
            for bi in 0..best.config.funcs[fi].blocks.len() {
                for ii in 0..best.config.funcs[fi].blocks[bi].len() {
                    let op = best.config.funcs[fi].blocks[bi][ii].op.clone();
                    let cands: Vec<OpSpec> = match &op {
                        OpSpec::Assign(n, b, e) => shrink_expr(e).into_iter().map(|x| OpSpec::Assign(n.clone(), *b, x)).collect(),
                        OpSpec::Store(i, s) => shrink_expr(s).into_iter().map(|x| OpSpec::Store(i.clone(), x)).collect(),
                        _ => vec![],
                    };
                    for c in cands {
                        let mut cand = best.clone();
                        cand.config.funcs[fi].blocks[bi][ii].op = c;
                        if same(&cand) {
                            best = cand;
                            progress = true;
                            break;
                        }
                    }
                }
            }
        }
    }
    best
}
