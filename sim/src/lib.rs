pub mod bytemodel;
pub mod c08;
pub mod harness;
pub mod ilspec;
pub mod refinterp;
pub mod rng;
pub mod val;
