//! The only source of randomness in the simulators: splitmix64 for seed
//! derivation, xoshiro256** for drawing. Execution of a script never draws.

pub fn splitmix64(x: &mut u64) -> u64 {
    *x = x.wrapping_add(0x9E37_79B9_7F4A_7C15);
    let mut z = *x;
    z = (z ^ (z >> 30)).wrapping_mul(0xBF58_476D_1CE4_E5B9);
    z = (z ^ (z >> 27)).wrapping_mul(0x94D0_49BB_1331_11EB);
    z ^ (z >> 31)
}

/// seed of run `index` of the batch `batch_seed` for property `prop`
pub fn run_seed(batch_seed: u64, prop: &str, index: u64) -> u64 {
    let mut x = batch_seed ^ 0x5EED_FA1C_0000_0000;
    let mut h = splitmix64(&mut x);
    for b in prop.bytes() {
        x ^= b as u64;
        h ^= splitmix64(&mut x);
    }
    x ^= index.wrapping_mul(0xD6E8_FEB8_6659_FD93);
    h ^ splitmix64(&mut x)
}

#[derive(Clone, Debug)]
pub struct Rng {
    s: [u64; 4],
}

impl Rng {
    pub fn new(seed: u64) -> Rng {
        let mut x = seed;
        let s = [
            splitmix64(&mut x),
            splitmix64(&mut x),
            splitmix64(&mut x),
            splitmix64(&mut x),
        ];
        Rng { s }
    }

    pub fn next(&mut self) -> u64 {
        let result = self.s[1].wrapping_mul(5).rotate_left(7).wrapping_mul(9);
        let t = self.s[1] << 17;
        self.s[2] ^= self.s[0];
        self.s[3] ^= self.s[1];
        self.s[1] ^= self.s[2];
        self.s[0] ^= self.s[3];
        self.s[2] ^= t;
        self.s[3] = self.s[3].rotate_left(45);
        result
    }

    /// uniform in 0..n (n > 0)
    pub fn below(&mut self, n: u64) -> u64 {
        debug_assert!(n > 0);
        // multiply-shift; bias is irrelevant here
        ((self.next() as u128 * n as u128) >> 64) as u64
    }

    pub fn usize_below(&mut self, n: usize) -> usize {
        self.below(n as u64) as usize
    }

    /// inclusive range
    pub fn range(&mut self, lo: u64, hi: u64) -> u64 {
        lo + self.below(hi - lo + 1)
    }

    pub fn chance(&mut self, num: u64, den: u64) -> bool {
        self.below(den) < num
    }

    pub fn pick<'a, T>(&mut self, xs: &'a [T]) -> &'a T {
        &xs[self.usize_below(xs.len())]
    }

    pub fn bytes(&mut self, n: usize) -> Vec<u8> {
        let mut v = Vec::with_capacity(n);
        while v.len() < n {
            let x = self.next().to_le_bytes();
            for b in x {
                if v.len() < n {
                    v.push(b);
                }
            }
        }
        v
    }

    /// corner-biased 64-bit value
    pub fn corner64(&mut self) -> u64 {
        match self.below(10) {
            0 => 0,
            1 => 1,
            2 => u64::MAX,
            3 => 0x8000_0000_0000_0000,
            4 => 0x7fff_ffff_ffff_ffff,
            5 => 0x0000_0000_8000_0000,
            6 => 0x0000_0000_ffff_ffff,
            7 => self.below(256),
            _ => self.next(),
        }
    }

    /// corner-biased byte vector of n bytes (big-endian meaning irrelevant)
    pub fn corner_bytes(&mut self, n: usize) -> Vec<u8> {
        match self.below(8) {
            0 => vec![0; n],
            1 => vec![0xff; n],
            2 => {
                let mut v = vec![0; n];
                v[0] = 0x80;
                v
            }
            3 => {
                let mut v = vec![0; n];
                v[n - 1] = 1;
                v
            }
            _ => self.bytes(n),
        }
    }

    pub fn shuffle<T>(&mut self, xs: &mut [T]) {
        for i in (1..xs.len()).rev() {
            let j = self.usize_below(i + 1);
            xs.swap(i, j);
        }
    }
}

/// FNV-1a style rolling hash for event logs (no allocation, no randomness)
#[derive(Clone, Copy, Debug)]
pub struct LogHash(pub u64);

impl Default for LogHash {
    fn default() -> Self {
        LogHash(0xcbf2_9ce4_8422_2325)
    }
}

impl LogHash {
    pub fn new() -> LogHash {
        LogHash::default()
    }
    pub fn bytes(&mut self, b: &[u8]) {
        for &x in b {
            self.0 ^= x as u64;
            self.0 = self.0.wrapping_mul(0x0000_0100_0000_01B3);
        }
    }
    pub fn u64(&mut self, x: u64) {
        self.bytes(&x.to_le_bytes());
    }
    pub fn str(&mut self, s: &str) {
        self.bytes(s.as_bytes());
        self.bytes(&[0xff]);
    }
}
