//! lift-sim, property C06: benign faults at the code-stream seam. A generated
//! machine-code program with known structure is (a) executed one instruction
//! at a time by lifting each unit alone with `translate_block` and running it
//! in the reference interpreter, and (b) lifted as a whole function through
//! the seam (window ends everywhere, EOF, holes, layered memory, manual edges,
//! capped windows via hook H2) and executed by the same interpreter. Traces
//! and final states must coincide; the recovered graph must be structurally
//! sound.

use crate::asm::{self, Arch, Slot};
use crate::bytemodel::ByteModel;
use crate::harness::{catch, panic_site, Counters, Violation};
use crate::refinterp::{self, RFunc, RLoc, RProgram, RState, StepResult};
use crate::rng::{LogHash, Rng};
use crate::simmem::{SeamFaults, SimMemory, SimMemoryDefault};
use crate::val::{eval, Scalars, Val};
use falcon::architecture::Endian;
use falcon::il;
use falcon::memory::backing;
use falcon::memory::MemoryPermissions;
use falcon::translator::{ManualEdge, Options, TranslationMemory};
use falcon::RC;
use num_bigint::BigUint;
use serde::{Deserialize, Serialize};
use std::collections::{BTreeMap, BTreeSet};

pub const DATA: u64 = 0x20_0000;

const STRAIGHT_X86: &str = include_str!("../corpus/x86_straight.txt");
const STRAIGHT_AMD64: &str = include_str!("../corpus/amd64_straight.txt");
const STRAIGHT_MIPS: &str = include_str!("../corpus/mips_straight.txt");
const STRAIGHT_PPC: &str = include_str!("../corpus/ppc_straight.txt");
const STRAIGHT_A64: &str = include_str!("../corpus/aarch64_straight.txt");

const INTRINSIC_X86: &str = include_str!("../corpus/x86_intrinsic.txt");
const INTRINSIC_AMD64: &str = include_str!("../corpus/amd64_intrinsic.txt");
const INTRINSIC_MIPS: &str = include_str!("../corpus/mips_intrinsic.txt");
const INTRINSIC_A64: &str = include_str!("../corpus/aarch64_intrinsic.txt");

/// units the lifter does not model: with `unsupported_are_intrinsics` they lift to one
/// intrinsic and fall through (found once by corpusprobe; PPC has none, its translator
/// returns an error even under that option)
pub fn intrinsic_units(arch: Arch) -> Vec<String> {
    let text = match arch {
        Arch::X86 => INTRINSIC_X86,
        Arch::Amd64 => INTRINSIC_AMD64,
        Arch::Mips | Arch::Mipsel => INTRINSIC_MIPS,
        Arch::Ppc => "",
        _ => INTRINSIC_A64,
    };
    text.lines()
        .filter(|l| !l.trim().is_empty())
        .map(|l| {
            if arch == Arch::Mipsel {
                let mut b = asm::unhex(l.trim());
                for w in b.chunks_mut(4) {
                    w.reverse();
                }
                asm::hex(&b)
            } else {
                l.trim().to_string()
            }
        })
        .collect()
}

/// straight-line units harvested from falcon's own lifter tests (hex, in the byte
/// order of `arch`): more instruction variety than the assembler forms
pub fn straight_units(arch: Arch) -> Vec<String> {
    let text = match arch {
        Arch::X86 => STRAIGHT_X86,
        Arch::Amd64 => STRAIGHT_AMD64,
        Arch::Mips | Arch::Mipsel => STRAIGHT_MIPS,
        Arch::Ppc => STRAIGHT_PPC,
        _ => STRAIGHT_A64,
    };
    text.lines()
        .filter(|l| !l.trim().is_empty())
        .map(|l| {
            if arch == Arch::Mipsel {
                let mut b = asm::unhex(l.trim());
                for w in b.chunks_mut(4) {
                    w.reverse();
                }
                asm::hex(&b)
            } else {
                l.trim().to_string()
            }
        })
        .collect()
}
const EVENT_CAP: usize = 1500;
const RAW_CAP: usize = 30_000;

#[derive(Clone, Debug, Serialize, Deserialize, PartialEq, Eq)]
pub struct Case {
    pub arch: Arch,
    pub slots: Vec<Slot>,
    pub base: u64,
    /// unmapped gap (bytes) inserted after slot i
    pub gaps: Vec<(usize, u64)>,
    /// EOF fault: this many bytes are cut off the end of the image
    pub eof_cut: usize,
    /// source slots whose branch lands in the delay slot of their (MIPS branch) target
    pub into_delay: Vec<usize>,
    /// x86: (source slot, delta): the branch lands `delta` bytes *inside* its target slot
    /// (a `mov r, imm32` whose immediate bytes are one-byte instructions), i.e. the two
    /// decodings overlap and rejoin at the next slot
    #[serde(default)]
    pub mid_targets: Vec<(usize, u8)>,
    /// "sim-default" | "sim-own" | "backing" | "layered"
    pub mem_impl: String,
    /// layered: (slot, store width in bytes) re-stored into the paged layer
    pub restore: Vec<(usize, usize)>,
    /// layered: "backing" | "paged" | "both"
    pub perms_on: String,
    pub window_cap: Option<usize>,
    /// (head slot, tail slot, guarded)
    pub manual_edges: Vec<(usize, usize, bool)>,
    pub state_seeds: Vec<u64>,
    pub intrinsics: bool,
    /// fault-free configuration: whole image mapped, no cap, no manual edges
    pub fault_free: bool,
    /// backing / layered: the image is loaded as several adjacent sections cut at these
    /// byte offsets (a section seam may fall inside an instruction)
    #[serde(default)]
    pub section_cuts: Vec<usize>,
    /// the function is lifted at this slot's address (not necessarily the lowest one: code
    /// in front of the entry is reached through backward branches)
    #[serde(default)]
    pub entry_slot: usize,
}

pub struct Outcome {
    pub violation: Option<Violation>,
    pub counters: Counters,
    pub states: BTreeSet<String>,
    pub log: LogHash,
    pub ticks: u64,
    pub nontrivial: bool,
}

#[derive(Clone, Debug)]
pub struct Layout {
    pub slots: Vec<Slot>,
    pub addrs: Vec<u64>,
    pub lens: Vec<usize>,
    /// contiguous mapped islands
    pub islands: Vec<(u64, Vec<u8>)>,
    /// address -> bytes of the unit starting there
    pub units: BTreeMap<u64, Vec<u8>>,
    pub end: u64,
}

fn is_branchy(s: &Slot) -> bool {
    matches!(s, Slot::Cond { .. } | Slot::Jump { .. } | Slot::Call { .. } | Slot::Term { .. })
}

fn target_of(s: &Slot) -> Option<usize> {
    match s {
        Slot::Cond { target, .. } | Slot::Jump { target, .. } | Slot::Call { target, .. } => Some(*target),
        _ => None,
    }
}

/// how many bytes into its target slot does the branch of slot `i` land? (x86 only, and
/// only into a raw 5-byte `mov r, imm32` carrier)
fn mid_delta(case: &Case, slots: &[Slot], i: usize) -> u8 {
    if !case.arch.is_x86() {
        return 0;
    }
    let t = match target_of(&slots[i]) {
        Some(t) => t.min(slots.len() - 1),
        None => return 0,
    };
    match (&slots[t], case.mid_targets.iter().find(|m| m.0 == i)) {
        (Slot::Raw(h), Some(&(_, d))) if h.len() == 10 && (1..=4).contains(&d) => d,
        _ => 0,
    }
}

pub fn layout(case: &Case) -> Layout {
    let arch = case.arch;
    let mut slots = case.slots.clone();
    let n = slots.len();
    let gap_after: BTreeMap<usize, u64> = case.gaps.iter().cloned().collect();
    let align = arch.insn_align();
    let mut addrs = vec![0u64; n];
    let mut lens = vec![0usize; n];
    // iterate until every x86 short branch fits
    for _round in 0..(n + 2) {
        let mut a = case.base;
        for i in 0..n {
            addrs[i] = a;
            lens[i] = asm::slot_len(arch, &slots[i]);
            a += lens[i] as u64;
            if let Some(g) = gap_after.get(&i) {
                a += (*g + align - 1) & !(align - 1);
            }
        }
        let mut changed = false;
        if arch.is_x86() {
            for i in 0..n {
                let t = target_of(&slots[i]).map(|t| addrs[t.min(n - 1)] + mid_delta(case, &slots, i) as u64);
                match &mut slots[i] {
                    Slot::Cond { cc, short, .. } if *short || *cc % 19 >= 16 => {
                        let len = lens[i] as u64;
                        if !asm::x86_rel8_fits(addrs[i], if *cc % 19 >= 16 { len } else { 2 }, t.unwrap()) {
                            if *cc % 19 >= 16 {
                                *cc = 4; // loop / jecxz / jcxz cannot reach: use je
                            }
                            *short = false;
                            changed = true;
                        }
                    }
                    Slot::Jump { short, .. } if *short => {
                        if !asm::x86_short_fits(addrs[i], t.unwrap()) {
                            *short = false;
                            changed = true;
                        }
                    }
                    _ => {}
                }
            }
        }
        if !changed {
            break;
        }
    }
    let target_addr = |i: usize| -> u64 {
        match target_of(&slots[i]) {
            Some(t) => {
                let t = t.min(n - 1);
                if arch.is_mips() && case.into_delay.contains(&i) && is_branchy(&slots[t]) {
                    addrs[t] + 4
                } else {
                    addrs[t] + mid_delta(case, &slots, i) as u64
                }
            }
            None => addrs[i],
        }
    };
    let mut units = BTreeMap::new();
    let mut islands: Vec<(u64, Vec<u8>)> = Vec::new();
    let mut end = case.base;
    for i in 0..n {
        let b = asm::encode(arch, &slots[i], addrs[i], target_addr(i));
        debug_assert_eq!(b.len(), lens[i]);
        if arch.is_mips() && b.len() == 8 {
            units.insert(addrs[i] + 4, b[4..].to_vec());
        }
        units.insert(addrs[i], b.clone());
        match islands.last_mut() {
            Some((s, data)) if *s + data.len() as u64 == addrs[i] => data.extend(&b),
            _ => islands.push((addrs[i], b.clone())),
        }
        end = addrs[i] + b.len() as u64;
    }
    // EOF: cut bytes off the end of the last island
    let mut cut = case.eof_cut;
    while cut > 0 {
        match islands.last_mut() {
            Some((_, data)) if data.len() > cut => {
                data.truncate(data.len() - cut);
                cut = 0;
            }
            Some(_) => {
                let (_, data) = islands.pop().unwrap();
                cut -= data.len().min(cut);
            }
            None => break,
        }
    }
    Layout {
        slots,
        addrs,
        lens,
        islands,
        units,
        end,
    }
}

fn entry_addr(case: &Case, l: &Layout) -> u64 {
    l.addrs[case.entry_slot.min(l.addrs.len() - 1)]
}

fn mapped(l: &Layout, a: u64) -> bool {
    l.islands.iter().any(|(s, d)| a >= *s && a - *s < d.len() as u64)
}

fn unit_fully_mapped(l: &Layout, a: u64) -> bool {
    match l.units.get(&a) {
        Some(b) => (0..b.len() as u64).all(|i| mapped(l, a + i)),
        None => false,
    }
}

/// slot addresses reachable from the entry through direct control flow (what
/// the function translator must discover), stopping at unmapped bytes
fn reachable(case: &Case, l: &Layout) -> BTreeSet<u64> {
    let n = l.slots.len();
    let index_of: BTreeMap<u64, usize> = l.addrs.iter().cloned().enumerate().map(|(i, a)| (a, i)).collect();
    let mut seen = BTreeSet::new();
    let mut work: Vec<u64> = vec![entry_addr(case, l)];
    for &(h, t, _) in &case.manual_edges {
        work.push(l.addrs[h.min(n - 1)]);
        work.push(l.addrs[t.min(n - 1)]);
    }
    while let Some(a) = work.pop() {
        if seen.contains(&a) || !unit_fully_mapped(l, a) {
            continue;
        }
        seen.insert(a);
        // a delay-slot entry point (addr+4 of a MIPS branch unit) falls through to addr+8
        let i = match index_of.get(&a) {
            Some(i) => *i,
            None => {
                if case.arch.is_mips() {
                    if let Some(i) = index_of.get(&(a.wrapping_sub(4))) {
                        work.push(l.addrs[*i] + l.lens[*i] as u64);
                    }
                } else if let Some(b) = l.units.get(&a) {
                    // a unit decoded inside another slot (x86 mid-instruction target):
                    // one-byte straight-line instructions
                    work.push(a + b.len() as u64);
                }
                continue;
            }
        };
        let next = l.addrs[i] + l.lens[i] as u64;
        let tgt = |t: usize| {
            let t = t.min(n - 1);
            if case.arch.is_mips() && case.into_delay.contains(&i) && is_branchy(&l.slots[t]) {
                l.addrs[t] + 4
            } else {
                l.addrs[t] + mid_delta(case, &l.slots, i) as u64
            }
        };
        match &l.slots[i] {
            Slot::Cond { target, .. } => {
                work.push(next);
                work.push(tgt(*target));
            }
            Slot::Jump { target, .. } => work.push(tgt(*target)),
            Slot::Term { .. } => {}
            _ => work.push(next),
        }
    }
    seen
}

// ---------------------------------------------------------------- memories

enum Mem {
    Sim(SimMemory),
    SimDefault(SimMemoryDefault),
    Backing(backing::Memory),
    Layered(falcon::executor::Memory),
}

impl Mem {
    fn as_dyn(&self) -> &dyn TranslationMemory {
        match self {
            Mem::Sim(m) => m,
            Mem::SimDefault(m) => m,
            Mem::Backing(m) => m,
            Mem::Layered(m) => m,
        }
    }
}

/// load `data` at `address` as adjacent sections cut at `cuts` (offsets into the image)
fn set_memory_in_sections(b: &mut backing::Memory, address: u64, data: &[u8], perms: u32, image_offset: usize, cuts: &[usize], c: &mut Counters) {
    let mut points: Vec<usize> = cuts
        .iter()
        .filter(|x| **x > image_offset && **x < image_offset + data.len())
        .map(|x| x - image_offset)
        .collect();
    points.sort();
    points.dedup();
    let mut start = 0;
    for p in points.into_iter().chain(std::iter::once(data.len())) {
        if p > start {
            b.set_memory(address + start as u64, data[start..p].to_vec(), MemoryPermissions::from_bits_truncate(perms));
            if start > 0 {
                c.inc("layered.section-seams");
            }
            start = p;
        }
    }
}

fn build_memory(case: &Case, l: &Layout, c: &mut Counters) -> Mem {
    let endian = if case.arch.big_endian() { Endian::Big } else { Endian::Little };
    match case.mem_impl.as_str() {
        "sim-own" | "sim-default" => {
            let mut m = SimMemory::new(SeamFaults {
                own_get_bytes: case.mem_impl == "sim-own",
                ..Default::default()
            });
            for (a, d) in &l.islands {
                m.map(*a, d, 5);
            }
            if case.mem_impl == "sim-own" {
                Mem::Sim(m)
            } else {
                Mem::SimDefault(SimMemoryDefault(m))
            }
        }
        "backing" => {
            let mut b = backing::Memory::new(endian);
            let mut off = 0;
            for (a, d) in &l.islands {
                set_memory_in_sections(&mut b, *a, d, 5, off, &case.section_cuts, c);
                off += d.len();
            }
            Mem::Backing(b)
        }
        _ => {
            let exec_on_backing = case.perms_on != "paged";
            // Which units are re-stored into the paged layer? For those the backing holds a
            // *decoy* (nops of the same length): a reader that wrongly bypasses the paged
            // layer sees a different program. Units that cannot be re-stored completely keep
            // their true bytes in the backing.
            let mut restored: BTreeMap<u64, usize> = BTreeMap::new();
            for &(slot, width) in &case.restore {
                let slot = slot.min(l.slots.len() - 1);
                let a = l.addrs[slot];
                if unit_fully_mapped(l, a) {
                    restored.insert(a, width.clamp(1, 32));
                }
            }
            let decoy_unit = |len: usize| -> Vec<u8> {
                if case.arch.is_x86() {
                    vec![0x90; len]
                } else {
                    let nop = asm::encode(case.arch, &Slot::Pad(1), 0, 0);
                    nop.iter().cycle().take(len).cloned().collect()
                }
            };
            let mut b = backing::Memory::new(endian.clone());
            let mut sec_off = 0;
            for (a, d) in &l.islands {
                let mut data = d.clone();
                for (ua, _) in &restored {
                    let ulen = l.units[ua].len();
                    if *ua >= *a && *ua + ulen as u64 <= *a + d.len() as u64 {
                        let off = (*ua - *a) as usize;
                        data[off..off + ulen].copy_from_slice(&decoy_unit(ulen));
                    }
                }
                set_memory_in_sections(&mut b, *a, &data, if exec_on_backing { 5 } else { 1 }, sec_off, &case.section_cuts, c);
                sec_off += d.len();
            }
            let mut m = falcon::executor::Memory::new_with_backing(endian, RC::new(b));
            if case.perms_on != "backing" {
                for (a, d) in &l.islands {
                    m.set_permissions(*a, d.len() as u64, MemoryPermissions::from_bits_truncate(5));
                }
            }
            for (a, width) in &restored {
                let bytes = &l.units[a];
                let mut off = 0;
                while off < bytes.len() {
                    let w = (*width).min(bytes.len() - off);
                    let chunk = &bytes[off..off + w];
                    let v = if case.arch.big_endian() {
                        BigUint::from_bytes_be(chunk)
                    } else {
                        BigUint::from_bytes_le(chunk)
                    };
                    m.store(*a + off as u64, il::Constant::new_big(v, w * 8)).expect("re-store into the paged layer");
                    c.add("layered.bytes-served-from-paged-layer", w as u64);
                    off += w;
                }
            }
            if !restored.is_empty() {
                c.inc("layered.images-with-decoy-backing");
                let pages: BTreeSet<u64> = l.islands.iter().flat_map(|(a, d)| [*a >> 10, (*a + d.len() as u64 - 1) >> 10]).collect();
                if pages.len() > 1 {
                    c.inc("layered.image-spans-pages");
                }
            }
            Mem::Layered(m)
        }
    }
}

// ---------------------------------------------------------------- execution

#[derive(Clone, Debug, PartialEq, Eq)]
struct Event {
    address: Option<u64>,
    op: String,
}

#[derive(Debug)]
struct RunResult {
    events: Vec<Event>,
    end: String,
    capped: bool,
    st: RState,
    units_run: u64,
    /// conditional branches whose direction was compared with the machine-level model
    branches_judged: u64,
}

fn initial_state(case: &Case, l: &Layout, seed: u64, extra: &BTreeMap<String, usize>) -> RState {
    let arch = case.arch;
    let mut rng = Rng::new(seed);
    let mut scalars = Scalars::new();
    let slot_addr = |rng: &mut Rng| l.addrs[rng.usize_below(l.addrs.len())];
    for (n, b) in asm::reg_names(arch) {
        let v = if n == asm::base_reg(arch) {
            Val::from_u64(DATA + 128, b)
        } else if Some(n) == asm::stack_reg(arch) || n == "sp" {
            Val::from_u64(DATA + 256, b)
        } else if n == "$zero" {
            Val::from_u64(0, b)
        } else if b == 1 {
            Val::from_u64(rng.below(2), 1)
        } else if rng.chance(1, 4) {
            Val::from_u64(slot_addr(&mut rng), b)
        } else if rng.chance(1, 6) {
            // small loop counters terminate loops
            Val::from_u64(rng.below(6), b)
        } else if b == 64 && rng.chance(1, 8) {
            // a small counter in the low half only (what a narrower view of the register sees
            // differs from the register)
            Val::from_u64((rng.range(1, 3) << 32) | rng.below(3), b)
        } else if b == 32 && rng.chance(1, 10) {
            Val::from_u64((rng.range(1, 3) << 16) | rng.below(3), b)
        } else {
            Val::from_u64(rng.corner64(), b)
        };
        scalars.insert(n.to_string(), v);
    }
    // every other scalar the program's instructions mention (harvested units use
    // registers the assembler forms do not): address-sized ones mostly point into data
    for (n, b) in extra {
        if scalars.contains_key(n) || n.starts_with("temp") || n == "branching_condition" {
            continue;
        }
        let v = if *b == 1 {
            Val::from_u64(rng.below(2), 1)
        } else if *b == arch.addr_bits() && rng.chance(1, 2) {
            Val::from_u64(DATA + 64 + rng.below(256), *b)
        } else if *b <= 64 {
            Val::from_u64(rng.corner64(), *b)
        } else {
            Val::new(BigUint::from_bytes_be(&rng.bytes(b.div_ceil(8))), *b)
        };
        scalars.insert(n.clone(), v);
    }
    scalars.insert("manual_guard".to_string(), Val::from_u64(rng.below(2), 1));
    let mut mem = ByteModel::new(arch.big_endian());
    let mut data = rng.bytes(512);
    // some stack/data words hold code addresses (return addresses, jump tables)
    let w = arch.addr_bits() / 8;
    for k in 0..(512 / w) {
        if rng.chance(1, 3) {
            let a = Val::from_u64(slot_addr(&mut rng), arch.addr_bits());
            let b = if arch.big_endian() { a.to_be_bytes() } else { a.to_le_bytes() };
            data[k * w..(k + 1) * w].copy_from_slice(&b);
        }
    }
    for (i, b) in data.iter().enumerate() {
        mem.stored.insert(DATA + i as u64, *b);
    }
    RState { scalars, mem, intrinsics_are_nops: true }
}

/// Where does an executed `Branch` to `a` continue inside the recovered function? The
/// graph itself does not say (that is the executor's business, C07); the runs continue
/// only when the answer is unambiguous: exactly one place where a run of IL
/// instructions carrying address `a` starts. Otherwise both runs end at the branch.
fn resolve_in_function(prog: &RProgram, a: u64) -> Option<RLoc> {
    let mut starts = Vec::new();
    for l in prog.locations_of_address(a) {
        if let RLoc::Instr { f, b, pos } = l {
            let prev_same = pos > 0 && prog.funcs[f].blocks[&b][pos - 1].address == Some(a);
            if !prev_same {
                starts.push(RLoc::Instr { f, b, pos });
            }
        }
    }
    if starts.len() == 1 {
        starts.pop()
    } else {
        None
    }
}

fn event_of(prog: &RProgram, loc: &RLoc) -> Option<Event> {
    prog.instr(loc).map(|i| Event {
        address: i.address,
        op: format!("{}", i.op),
    })
}

/// Execute a lifted function in the reference interpreter.
fn run_system(func: &RFunc, resolvable: &BTreeSet<u64>, mut st: RState) -> Result<RunResult, Violation> {
    let prog = RProgram { funcs: vec![func.clone()] };
    let mut events = Vec::new();
    let mut loc = match func.entry_loc(0) {
        Some(l) => l,
        None => {
            return Ok(RunResult { events, end: "no-entry".into(), capped: false, st, units_run: 0, branches_judged: 0 })
        }
    };
    let mut raw = 0;
    let end;
    loop {
        raw += 1;
        if events.len() >= EVENT_CAP || raw >= RAW_CAP {
            return Ok(RunResult { events, end: "cap".into(), capped: true, st, units_run: 0, branches_judged: 0 });
        }
        if let Some(e) = event_of(&prog, &loc) {
            events.push(e);
        }
        match refinterp::step(&prog, &loc, &mut st) {
            StepResult::Moved(l) => loc = l,
            // only addresses of real instructions (not the MIPS "X+1" bookkeeping addresses)
            StepResult::Branch(a) => match resolve_in_function(&prog, a).filter(|_| resolvable.contains(&a)) {
                Some(l) => loc = l,
                None => {
                    end = format!("branch-out:{:x}", a);
                    break;
                }
            },
            StepResult::Stuck(m) => {
                end = format!("stuck:{}", refinterp::stuck_kind(&m));
                break;
            }
            StepResult::Ambiguous(m) => {
                return Err(Violation::new(
                    "nondeterministic-edges",
                    String::new(),
                    format!("executing the recovered function at {:?}: {}", loc, m),
                ));
            }
        }
    }
    Ok(RunResult { events, end, capped: false, st, units_run: 0, branches_judged: 0 })
}

struct UnitLift {
    graphs: Vec<RFunc>,
    successors: Vec<(u64, Option<il::Expression>)>,
}

/// Execute the machine code one unit at a time.
fn run_reference(
    case: &Case,
    l: &Layout,
    in_function: &BTreeSet<u64>,
    cache: &mut BTreeMap<u64, Option<UnitLift>>,
    mut st: RState,
) -> RunResult {
    let t = case.arch.translator();
    let mut opts = Options::default();
    opts.set_unsupported_are_intrinsics(case.intrinsics);
    let mut events = Vec::new();
    let mut pc = entry_addr(case, l);
    let mut raw = 0;
    let mut units_run = 0;
    let mut branches_judged = 0u64;
    let end;
    'outer: loop {
        if !unit_fully_mapped(l, pc) {
            end = if l.units.contains_key(&pc) || !mapped(l, pc) { "stuck:no-out-edge".to_string() } else { format!("not-a-unit:{:x}", pc) };
            break;
        }
        let lift = cache.entry(pc).or_insert_with(|| {
            let bytes = &l.units[&pc];
            match catch(|| t.translate_block(bytes, pc, &opts)) {
                Ok(Ok(r)) => Some(UnitLift {
                    graphs: r.instructions().iter().map(|(a, g)| RFunc::from_cfg(*a, g)).collect(),
                    successors: r.successors().clone(),
                }),
                _ => None,
            }
        });
        let lift = match lift {
            Some(x) => x,
            None => {
                end = "unit-lift-failed".into();
                break;
            }
        };
        units_run += 1;
        // what the machine does with a conditional branch here, from the state before it
        // (only the conditional branches the generator placed: a harvested unit the lifter
        // turns into an intrinsic, e.g. jrcxz, is an opaque step on both sides)
        let is_cond_slot = l.addrs.binary_search(&pc).ok().is_some_and(|i| matches!(l.slots[i], Slot::Cond { .. }));
        let machine = if is_cond_slot { crate::branchoracle::expect(case.arch, &l.units[&pc], pc, &st.scalars) } else { None };
        let mut branched: Option<u64> = None;
        for g in &lift.graphs {
            let prog = RProgram { funcs: vec![g.clone()] };
            let mut loc = match g.entry_loc(0) {
                Some(x) => x,
                None => continue,
            };
            loop {
                raw += 1;
                if events.len() >= EVENT_CAP || raw >= RAW_CAP {
                    return RunResult { events, end: "cap".into(), capped: true, st, units_run, branches_judged };
                }
                if let Some(e) = event_of(&prog, &loc) {
                    events.push(e);
                }
                match refinterp::step(&prog, &loc, &mut st) {
                    StepResult::Moved(x) => loc = x,
                    StepResult::Branch(a) => {
                        branched = Some(a);
                        break;
                    }
                    StepResult::Stuck(m) => {
                        let k = refinterp::stuck_kind(&m);
                        let at_exit = match loc {
                            RLoc::Instr { b, pos, .. } => Some(b) == g.exit && pos + 1 == g.blocks[&b].len(),
                            RLoc::Empty { b, .. } => Some(b) == g.exit,
                            _ => false,
                        };
                        if at_exit && (k == "no-out-edge" || k == "no-guard-holds") {
                            break; // this instruction's graph is done
                        }
                        end = format!("stuck:{}", k);
                        break 'outer;
                    }
                    StepResult::Ambiguous(_) => {
                        end = "ref-ambiguous".into();
                        break 'outer;
                    }
                }
            }
            if branched.is_some() {
                break;
            }
        }
        if let Some(a) = branched {
            if in_function.contains(&a) {
                pc = a;
                continue;
            }
            end = format!("branch-out:{:x}", a);
            break;
        }
        let mut enabled = Vec::new();
        let mut stuck = None;
        for (a, c) in &lift.successors {
            match c {
                None => enabled.push(*a),
                Some(c) => match eval(c, &st.scalars) {
                    Ok(v) => {
                        if v.is_one() {
                            enabled.push(*a)
                        }
                    }
                    Err(e) => stuck = Some(format!("{:?}", e)),
                },
            }
        }
        if stuck.is_some() {
            end = "stuck:undefined-scalar".into();
            break;
        }
        enabled.dedup();
        match enabled.len() {
            0 => {
                let at_cond = l.addrs.iter().position(|a| *a == pc).is_some_and(|i| matches!(l.slots[i], Slot::Cond { .. }));
                end = if lift.successors.is_empty() {
                    "stuck:no-out-edge".into()
                } else if at_cond {
                    format!("stuck:no-guard-holds:cond-branch:{:x}", pc)
                } else {
                    "stuck:no-guard-holds".into()
                };
                break;
            }
            1 => {
                if let Some(m) = machine.as_ref().filter(|m| m.target != m.fallthrough) {
                    branches_judged += 1;
                    if (enabled[0] != m.fallthrough) != m.taken {
                        end = format!(
                            "branch-direction:at 0x{:x} the lifted instruction continues at 0x{:x}, the machine ({}) {} the branch to 0x{:x} (next instruction 0x{:x})",
                            pc,
                            enabled[0],
                            m.what,
                            if m.taken { "takes" } else { "does not take" },
                            m.target,
                            m.fallthrough
                        );
                        break;
                    }
                }
                pc = enabled[0]
            }
            _ => {
                end = "ref-ambiguous".into();
                break;
            }
        }
    }
    RunResult { events, end, capped: false, st, units_run, branches_judged }
}

fn sig(case: &Case, extra: &str) -> String {
    let fault = if case.fault_free {
        "none".to_string()
    } else {
        let mut f = Vec::new();
        if case.window_cap.is_some() {
            f.push("window-cap");
        }
        if case.eof_cut > 0 {
            f.push("eof");
        }
        if !case.gaps.is_empty() {
            f.push("holes");
        }
        if !case.manual_edges.is_empty() {
            f.push("manual-edges");
        }
        if !case.into_delay.is_empty() {
            f.push("target-is-delay-slot");
        }
        if !case.mid_targets.is_empty() && case.arch.is_x86() {
            f.push("mid-instruction-target");
        }
        if f.is_empty() {
            "none".into()
        } else {
            f.join("+")
        }
    };
    format!("translator={} mem={} fault={}{}", case.arch.name(), case.mem_impl, fault, extra)
}

pub fn execute(case: &Case) -> Outcome {
    let mut c = Counters::default();
    let mut states = BTreeSet::new();
    let mut log = LogHash::new();
    let mut ticks = 0u64;
    let arch = case.arch;
    let done = |violation: Option<Violation>, c: Counters, states: BTreeSet<String>, log: LogHash, ticks: u64, nontrivial: bool| Outcome {
        violation,
        counters: c,
        states,
        log,
        ticks,
        nontrivial,
    };
    if case.slots.is_empty() {
        return done(None, c, states, log, 0, false);
    }
    let mut l = layout(case);
    c.inc(&format!("translator.{}", arch.name()));
    // units of the overlapping decoding reached through a mid-instruction target: decoded
    // on the fly, one instruction at a time, with the lifter itself as the decoder
    if arch.is_x86() && !case.mid_targets.is_empty() {
        let t = arch.translator();
        let o = Options::default();
        for i in 0..l.slots.len() {
            let d = mid_delta(case, &l.slots, i);
            if d == 0 {
                continue;
            }
            let tslot = target_of(&l.slots[i]).unwrap().min(l.slots.len() - 1);
            let mut pc = l.addrs[tslot] + d as u64;
            c.inc("fault.mid-instruction-target");
            for _ in 0..8 {
                if l.units.contains_key(&pc) || !mapped(&l, pc) {
                    break;
                }
                let mut slice = Vec::new();
                while slice.len() < 15 && mapped(&l, pc + slice.len() as u64) {
                    let a = pc + slice.len() as u64;
                    let (s0, d0) = l.islands.iter().find(|(s0, d0)| a >= *s0 && a - *s0 < d0.len() as u64).unwrap();
                    slice.push(d0[(a - *s0) as usize]);
                }
                let len = match catch(|| t.translate_block(&slice, pc, &o)) {
                    Ok(Ok(r)) => {
                        let mut starts: Vec<u64> = r.instructions().iter().map(|x| x.0).collect();
                        starts.sort();
                        starts.dedup();
                        if starts.len() >= 2 {
                            (starts[1] - pc) as usize
                        } else {
                            r.length()
                        }
                    }
                    _ => 0,
                };
                if len == 0 || len > slice.len() {
                    break;
                }
                l.units.insert(pc, slice[..len].to_vec());
                pc += len as u64;
            }
        }
    }
    c.inc(&format!("memory.{}", case.mem_impl));
    if case.fault_free {
        c.inc("runs.fault-free");
    } else {
        c.inc("runs.fault-injecting");
    }
    log.str(arch.name());
    log.u64(case.base);
    log.u64(case.entry_slot as u64);
    for (a, d) in &l.islands {
        log.u64(*a);
        log.bytes(d);
    }
    let mem = build_memory(case, &l, &mut c);
    let mut opts = Options::default();
    opts.set_unsupported_are_intrinsics(case.intrinsics);
    let n = l.slots.len();
    // Manual edges are requested only where they make sense: from an indirect jump that
    // is really there (its Branch operation leaves the graph, so the edge is structure
    // only) to an instruction that is really there. An edge hanging off unmapped bytes
    // would be followed by execution and has no machine-code counterpart.
    let mut manual: Vec<(usize, usize, bool)> = Vec::new();
    for &(h, t, guarded) in &case.manual_edges {
        let (h, t) = (h.min(n - 1), t.min(n - 1));
        // heads: indirect jumps, or a direct unconditional jump when the requested edge runs
        // parallel to the jump's own successor (same tail): the edge is then redundant for
        // execution whatever its guard says
        let head_ok = match &l.slots[h] {
            Slot::Term { kind, .. } => !(arch.is_x86() && kind % 3 == 1),
            Slot::Jump { target, .. } => {
                target.min(&(n - 1)) == &t && mid_delta(case, &l.slots, h) == 0 && !(arch.is_mips() && case.into_delay.contains(&h))
            }
            _ => false,
        };
        if !head_ok || !unit_fully_mapped(&l, l.addrs[h]) || !unit_fully_mapped(&l, l.addrs[t]) {
            continue;
        }
        // a second edge out of the same indirect jump (a jump table) goes to another tail and
        // carries the complement of the first one's guard, so that the requester is not
        // ambiguous; anything else from a head that already has an edge is not requested
        let earlier: Vec<&(usize, usize, bool)> = manual.iter().filter(|m| m.0 == h).collect();
        let second = match earlier.as_slice() {
            [] => false,
            [(_, t0, true)] if *t0 != t && guarded && matches!(l.slots[h], Slot::Term { .. }) => true,
            _ => continue,
        };
        manual.push((h, t, guarded));
        let cond = if second {
            c.inc("fault.manual-edge-second-from-head");
            Some(il::Expression::cmpeq(il::expr_scalar("manual_guard", 1), il::expr_const(0, 1)).unwrap())
        } else if guarded {
            Some(il::expr_scalar("manual_guard", 1))
        } else {
            None
        };
        opts.add_manual_edge(ManualEdge::new(l.addrs[h], l.addrs[t], cond));
        c.inc("fault.manual-edge");
    }
    // every other case hands the same options over through the builder API, edges first
    // and the unsupported-instruction policy last (the two entry points must agree)
    if n % 2 == 1 {
        let mut b = falcon::translator::OptionsBuilder::new();
        for e in opts.manual_edges() {
            b = b.add_manual_edge(e.clone());
        }
        opts = b.unsupported_are_intrinsics(case.intrinsics).build();
        c.inc("config.options-builder");
    }
    let case_manual = manual;
    let cap = if arch.is_mips() { None } else { case.window_cap };
    falcon::verif::set_window_cap(cap.unwrap_or(usize::MAX));
    let t = arch.translator();
    let entry = entry_addr(case, &l);
    let lifted = catch(|| t.translate_function_extended(mem.as_dyn(), entry, &opts));
    falcon::verif::set_window_cap(usize::MAX);
    if cap.is_some() {
        c.inc("fault.window-cap");
    }
    if case.eof_cut > 0 {
        c.inc("fault.eof");
    }
    if !case.gaps.is_empty() {
        c.inc("fault.holes");
    }
    if !case.into_delay.is_empty() && arch.is_mips() {
        c.inc("fault.target-is-delay-slot");
    }
    // window-end probes from the seam's read log
    let calls: Vec<(u64, usize, usize)> = match &mem {
        Mem::Sim(m) => m.calls.borrow().clone(),
        Mem::SimDefault(_) => Vec::new(),
        _ => Vec::new(),
    };
    let window = cap.unwrap_or(64).min(64);
    let mut window_class = "none";
    for (i, &(a, _req, got)) in calls.iter().enumerate() {
        let got = got.min(window);
        let endw = a + got as u64;
        if got == window {
            if l.units.contains_key(&endw) || endw >= l.end {
                c.inc("window-end.on-instruction-boundary");
                if window_class == "none" {
                    window_class = "boundary";
                }
            } else if arch.is_mips() && l.units.contains_key(&(endw - 4)) && l.units[&(endw - 4)].len() == 8 {
                c.inc("window-end.between-branch-and-delay-slot");
                window_class = "delay-slot";
            } else {
                c.inc("window-end.inside-instruction");
                window_class = "inside";
            }
        } else if got == 0 {
            c.inc("seam.empty-read");
        } else {
            c.inc("window-end.stream-ended");
        }
        if calls[..i].iter().any(|&(pa, _, pg)| a > pa && a < pa + pg.min(window) as u64) {
            c.inc("overlap.block-entered-inside-lifted-window");
        }
    }
    c.add("seam.get_bytes-calls", calls.len() as u64);

    let function = match lifted {
        Err(p) => {
            let v = Violation::new("panic", sig(case, &format!(" site={}", panic_site(&p))), format!("translate_function_extended panicked: {}", p));
            return done(Some(v), c, states, log, 1, true);
        }
        Ok(Err(e)) => {
            c.inc("result.lift-err");
            log.str("lift-err");
            states.insert(format!("{}|{}|cap{}|lift-err", arch.name(), case.mem_impl, cap.is_some()));
            let unsupported = format!("{}", e).contains("Unhandled instruction");
            if unsupported {
                // an instruction form the pinned lifter does not accept (e.g. a PPC alias):
                // the statement starts from "lifting yields a graph"
                c.inc("result.lift-unsupported-form");
            }
            let v = if case.fault_free && !unsupported {
                Some(Violation::new(
                    "lift-err-faultfree",
                    sig(case, ""),
                    format!("a fully mapped program of supported instructions failed to lift: {}", e),
                ))
            } else {
                None
            };
            return done(v, c, states, log, 1, false);
        }
        Ok(Ok(f)) => f,
    };
    c.inc("result.lift-ok");
    if std::env::var("SIM_TRACE").is_ok() {
        eprintln!("--- recovered function:\n{}", function.control_flow_graph());
    }
    let rfunc = RFunc::from_function(&function);

    // ---- structure
    let mut block_ids = BTreeSet::new();
    let mut count_by_addr: BTreeMap<u64, u64> = BTreeMap::new();
    for b in function.blocks() {
        block_ids.insert(b.index());
        for i in b.instructions() {
            if let Some(a) = i.address() {
                *count_by_addr.entry(a).or_insert(0) += 1;
            }
        }
    }
    let fprog = RProgram { funcs: vec![rfunc.clone()] };
    let in_function: BTreeSet<u64> = count_by_addr
        .keys()
        .cloned()
        .filter(|a| resolve_in_function(&fprog, *a).is_some())
        .collect();
    // what the entry unit lifts to on its own: the address its first IL instruction carries
    // (AArch64 branches lift to an empty graph: then the entry block cannot be identified by address)
    let entry_first: Option<u64> = if unit_fully_mapped(&l, entry) {
        match catch(|| t.translate_block(&l.units[&entry], entry, &opts)) {
            Ok(Ok(r)) => r.instructions().first().and_then(|(_, g)| {
                g.entry()
                    .and_then(|e| g.block(e).ok())
                    .and_then(|b| b.instructions().first().and_then(|i| i.address()))
            }),
            _ => None,
        }
    } else {
        None
    };
    let structural = (|| -> Option<Violation> {
        let entry = function.control_flow_graph().entry();
        match entry {
            Some(e) if block_ids.contains(&e) => {
                let first = function.block(e).ok().and_then(|b| b.instructions().first().and_then(|i| i.address()));
                match entry_first {
                    Some(want) => {
                        if first != Some(want) {
                            return Some(Violation::new(
                                "entry-address",
                                sig(case, ""),
                                format!("entry block starts at {:x?}, the function's first instruction carries 0x{:x}", first, want),
                            ));
                        }
                    }
                    None => {}
                }
            }
            other => {
                return Some(Violation::new("dangling-edge", sig(case, ""), format!("entry {:?} is not a block of the function", other)))
            }
        }
        for e in function.edges() {
            if !block_ids.contains(&e.head()) || !block_ids.contains(&e.tail()) {
                return Some(Violation::new(
                    "dangling-edge",
                    sig(case, ""),
                    format!("edge {}->{} refers to a missing block", e.head(), e.tail()),
                ));
            }
        }
        None
    })();
    if entry_first.is_none() {
        c.inc("structure.entry-address-unjudged");
    } else {
        c.inc("structure.entry-address-checked");
    }
    if structural.is_some() {
        return done(structural, c, states, log, 1, true);
    }

    // per-unit reference lifts (shared by the structure check and the runs)
    let slot_index: BTreeMap<u64, usize> = l.addrs.iter().cloned().enumerate().map(|(i, a)| (a, i)).collect();
    let mut cache: BTreeMap<u64, Option<UnitLift>> = BTreeMap::new();
    let reach = {
        let mut filtered = case.clone();
        filtered.manual_edges = case_manual.clone();
        reachable(&filtered, &l)
    };
    c.add("structure.reachable-instructions-checked", reach.len() as u64);
    for &a in &reach {
        // a delay-slot entry point is a unit of its own only when something targets it
        let bytes = &l.units[&a];
        let lift = cache.entry(a).or_insert_with(|| match catch(|| t.translate_block(bytes, a, &opts)) {
            Ok(Ok(r)) => Some(UnitLift {
                graphs: r.instructions().iter().map(|(x, g)| RFunc::from_cfg(*x, g)).collect(),
                successors: r.successors().clone(),
            }),
            _ => None,
        });
        let lift = match lift {
            Some(x) => x,
            None => {
                c.inc("reference.unit-lift-failed");
                continue;
            }
        };
        // where control can go next is known from how the program was assembled: the
        // unit's successor *addresses* (not their conditions, which are lifter semantics)
        // must be exactly those
        if let Some(si) = slot_index.get(&a).copied() {
            let next = a + l.lens[si] as u64;
            let tgt = |t: usize| -> u64 {
                let t = t.min(n - 1);
                if arch.is_mips() && case.into_delay.contains(&si) && is_branchy(&l.slots[t]) {
                    l.addrs[t] + 4
                } else {
                    l.addrs[t] + mid_delta(case, &l.slots, si) as u64
                }
            };
            let want: Option<BTreeSet<u64>> = match &l.slots[si] {
                Slot::Cond { target, .. } => Some([next, tgt(*target)].into_iter().collect()),
                Slot::Jump { target, .. } => Some([tgt(*target)].into_iter().collect()),
                Slot::Term { .. } => Some(BTreeSet::new()),
                Slot::Raw(_) => None,
                _ => Some([next].into_iter().collect()),
            };
            let got: BTreeSet<u64> = lift.successors.iter().map(|x| x.0).collect();
            c.inc("structure.unit-successor-addresses-checked");
            if let Some(want) = want {
                if want != got {
                    return done(
                        Some(Violation::new(
                            "successor-missing",
                            sig(case, ""),
                            format!(
                                "instruction at 0x{:x} ({:?}) continues at {:x?} in the machine code, its lifted block names the successors {:x?}",
                                a, l.slots[si], want, got
                            ),
                        )),
                        c,
                        states,
                        log,
                        1,
                        true,
                    );
                }
            }
        }
        let mut expect: BTreeMap<u64, u64> = BTreeMap::new();
        for g in &lift.graphs {
            for instrs in g.blocks.values() {
                for i in instrs {
                    if let Some(x) = i.address {
                        *expect.entry(x).or_insert(0) += 1;
                    }
                }
            }
        }
        for (x, want) in expect {
            // the delay-slot instruction of a MIPS branch unit is shared with the unit at X+4
            let got = count_by_addr.get(&x).copied().unwrap_or(0);
            if got == 0 {
                return done(
                    Some(Violation::new(
                        "instruction-missing",
                        sig(case, ""),
                        format!("instruction 0x{:x} (unit 0x{:x}) is reachable through direct branches but absent from the function", x, a),
                    )),
                    c,
                    states,
                    log,
                    1,
                    true,
                );
            }
            if got != want {
                return done(
                    Some(Violation::new(
                        "instruction-duplicated",
                        sig(case, ""),
                        format!("instruction 0x{:x}: {} IL instructions in the function, its own lift has {}", x, got, want),
                    )),
                    c,
                    states,
                    log,
                    1,
                    true,
                );
            }
        }
    }
    // manual edges exist. Requests naming the same (head, tail) pair are one group: the
    // statement does not say which guard wins, so any requested guardedness is accepted.
    // An unguarded edge may have been consumed by block merging: then head and tail are
    // adjacent instructions of one block.
    let mut groups: BTreeMap<(u64, u64), Vec<bool>> = BTreeMap::new();
    for &(h, tl, guarded) in &case_manual {
        let (hs, ts) = (h.min(n - 1), tl.min(n - 1));
        let (ha, ta) = (l.addrs[hs], l.addrs[ts]);
        if !unit_fully_mapped(&l, ha) || !unit_fully_mapped(&l, ta) {
            continue;
        }
        groups.entry((ha, ta)).or_default().push(guarded);
    }
    for ((ha, ta), guards) in groups {
        // tails that lift to no IL instruction cannot be located by address
        // ... and so can tails whose own graph starts with an empty block (rep-prefixed
        // string instructions: the rep head block carries no instruction)
        let tail_entry_carries_address = cache
            .get(&ta)
            .and_then(|x| x.as_ref())
            .and_then(|lift| lift.graphs.first())
            .and_then(|g| g.entry.and_then(|e| g.blocks.get(&e)).and_then(|b| b.first()).and_then(|i| i.address))
            == Some(ta);
        // heads that lift to no IL (AArch64 direct branches) cannot be located either
        let head_has_il = count_by_addr.contains_key(&ha) || (arch.is_mips() && count_by_addr.contains_key(&(ha + 1)));
        let tail_has_il = count_by_addr.contains_key(&ta) && tail_entry_carries_address && head_has_il;
        if !tail_has_il {
            c.inc("structure.manual-edge-unjudged");
            continue;
        }
        // a MIPS branch unit is [X, X+4 (delay slot), X+1 (the branch's own graph, possibly empty)]
        let is_head = |a: Option<u64>| a == Some(ha) || (arch.is_mips() && (a == Some(ha + 1) || a == Some(ha + 4)));
        let by_edge = function.edges().iter().any(|e| {
            let head_ok = function
                .block(e.head())
                .ok()
                .and_then(|b| b.instructions().iter().rev().find_map(|i| i.address()))
                .map(|a| is_head(Some(a)))
                .unwrap_or(false);
            let tail_ok = function.block(e.tail()).ok().and_then(|b| b.instructions().first().and_then(|i| i.address())) == Some(ta);
            head_ok && tail_ok && guards.contains(&e.condition().is_some())
        });
        let merged = guards.contains(&false)
            && function.blocks().iter().any(|b| {
                b.instructions().windows(2).any(|w| is_head(w[0].address()) && w[1].address() == Some(ta))
            });
        // the head instruction's graph may end in an empty block (multi-block delay-slot
        // instructions, empty branch graphs): an edge from an address-less block into the tail
        // cannot be attributed to a head, so nothing is concluded from it
        let from_addressless_block = function.edges().iter().any(|e| {
            let head_addressless = function
                .block(e.head())
                .map(|b| b.instructions().iter().all(|i| i.address().is_none()))
                .unwrap_or(false);
            let tail_ok = function.block(e.tail()).ok().and_then(|b| b.instructions().first().and_then(|i| i.address())) == Some(ta);
            head_addressless && tail_ok && guards.contains(&e.condition().is_some())
        });
        if !by_edge && !merged && from_addressless_block {
            c.inc("structure.manual-edge-unjudged");
            continue;
        }
        c.inc("structure.manual-edges-checked");
        if !by_edge && !merged {
            return done(
                Some(Violation::new(
                    "manual-edge-missing",
                    sig(case, ""),
                    format!("requested manual edge 0x{:x} -> 0x{:x} (guarded: {:?}) is not in the function", ha, ta, guards),
                )),
                c,
                states,
                log,
                1,
                true,
            );
        }
    }

    // a Branch continues inside the function only at a real, fully mapped instruction
    // whose place in the function is unambiguous (same rule on both sides)
    let resolvable: BTreeSet<u64> = in_function
        .iter()
        .cloned()
        .filter(|a| l.addrs.contains(a) && unit_fully_mapped(&l, *a))
        .collect();
    // ---- behaviour: run both from every initial state
    let mut nontrivial = false;
    let mut term_kind = "none".to_string();
    let mut mentioned: BTreeMap<String, usize> = BTreeMap::new();
    for lift in cache.values().flatten() {
        for g in &lift.graphs {
            for instrs in g.blocks.values() {
                for i in instrs {
                    match &i.op {
                        il::Operation::Assign { src, .. } => crate::val::collect_scalars(src, &mut mentioned),
                        il::Operation::Load { index, .. } => crate::val::collect_scalars(index, &mut mentioned),
                        il::Operation::Store { index, src } => {
                            crate::val::collect_scalars(index, &mut mentioned);
                            crate::val::collect_scalars(src, &mut mentioned);
                        }
                        il::Operation::Branch { target } => crate::val::collect_scalars(target, &mut mentioned),
                        _ => {}
                    }
                }
            }
            for edges in g.out.values() {
                for e in edges {
                    if let Some(c) = &e.cond {
                        crate::val::collect_scalars(c, &mut mentioned);
                    }
                }
            }
        }
    }
    for &seed in &case.state_seeds {
        let st0 = initial_state(case, &l, seed, &mentioned);
        let sys = match run_system(&rfunc, &resolvable, st0.clone()) {
            Ok(r) => r,
            Err(mut v) => {
                v.signature = sig(case, "");
                return done(Some(v), c, states, log, ticks + 1, true);
            }
        };
        let refr = run_reference(case, &l, &resolvable, &mut cache, st0);
        ticks += refr.units_run.max(1);
        c.add("run.native-instructions", refr.units_run);
        c.add("structure.branch-directions-judged", refr.branches_judged);
        c.add("run.il-instructions", refr.events.len() as u64);
        c.inc(&format!("run.end.{}", refr.end.split(':').next().unwrap_or("?")));
        term_kind = refr.end.split(':').next().unwrap_or("?").to_string();
        if refr.end == "unit-lift-failed" || refr.end == "ref-ambiguous" || refr.end.starts_with("not-a-unit") {
            c.inc("run.unjudged");
            continue;
        }
        if let Some(d) = refr.end.strip_prefix("branch-direction:") {
            // both runs share the lifter, so a wrong branch condition moves both alike: the
            // direction is judged against a machine-level model of the branch instructions
            return done(Some(Violation::new("branch-direction", sig(case, ""), format!("{} (state seed {})", d, seed))), c, states, log, ticks, nontrivial);
        }
        if refr.end.starts_with("stuck:no-guard-holds:cond-branch") {
            // both runs share the per-instruction successors, so a conditional branch that
            // lost one of them stops both alike: judge it on its own - the machine always
            // continues at the target or at the next instruction
            return done(
                Some(Violation::new(
                    "branch-without-successor",
                    sig(case, ""),
                    format!(
                        "the conditional branch at 0x{} has successors but none is enabled (state seed {}): the machine continues at its target or at the next instruction",
                        refr.end.rsplit(':').next().unwrap_or("?"),
                        seed
                    ),
                )),
                c,
                states,
                log,
                ticks,
                nontrivial,
            );
        }
        if refr.units_run >= 3 {
            nontrivial = true;
        }
        log.u64(refr.events.len() as u64);
        if std::env::var("SIM_TRACE").is_ok() {
            eprintln!("--- function:\n{}", function.control_flow_graph());
            for (k, e) in sys.events.iter().enumerate().take(40) {
                eprintln!("sys {:3} {:x?} {}", k, e.address, e.op);
            }
            eprintln!("sys end: {}", sys.end);
            for (k, e) in refr.events.iter().enumerate().take(40) {
                eprintln!("ref {:3} {:x?} {}", k, e.address, e.op);
            }
            eprintln!("ref end: {}", refr.end);
        }
        let m = sys.events.len().min(refr.events.len());
        for k in 0..m {
            if sys.events[k] != refr.events[k] {
                return done(
                    Some(Violation::new(
                        "trace-diverge",
                        sig(case, ""),
                        format!(
                            "IL instruction #{}: function executes {:x?} '{}', one-instruction-at-a-time executes {:x?} '{}' (state seed {})",
                            k, sys.events[k].address, sys.events[k].op, refr.events[k].address, refr.events[k].op, seed
                        ),
                    )),
                    c,
                    states,
                    log,
                    ticks,
                    true,
                );
            }
        }
        if sys.capped || refr.capped {
            c.inc("run.cap-hit");
            continue;
        }
        if sys.events.len() != refr.events.len() {
            let (who, e) = if sys.events.len() > m {
                ("function continues with", &sys.events[m])
            } else {
                ("one-instruction-at-a-time continues with", &refr.events[m])
            };
            return done(
                Some(Violation::new(
                    "trace-diverge",
                    sig(case, ""),
                    format!(
                        "after {} common IL instructions the function run ends ({}) and the reference run ends ({}); {} {:x?} '{}' (state seed {})",
                        m, sys.end, refr.end, who, e.address, e.op, seed
                    ),
                )),
                c,
                states,
                log,
                ticks,
                true,
            );
        }
        if sys.end == "stuck:no-guard-holds" && !refr.end.starts_with("stuck:no-guard-holds") && case.manual_edges.iter().all(|e| !e.2) {
            // same trace, but the function stops in a block that has out-edges none of which
            // is enabled, where the machine code goes on (possibly into unmapped memory, which
            // an unmodified lift represents by an empty block): the graph lost a way out
            return done(
                Some(Violation::new(
                    "edges-not-exhaustive",
                    sig(case, ""),
                    format!(
                        "after {} common IL instructions the function run stops in a block whose outgoing edges are all disabled; the reference run ends ({}) (state seed {})",
                        m, refr.end, seed
                    ),
                )),
                c,
                states,
                log,
                ticks,
                true,
            );
        }
        if sys.st.scalars != refr.st.scalars || sys.st.mem.stored != refr.st.mem.stored {
            return done(
                Some(Violation::new(
                    "final-state",
                    sig(case, ""),
                    format!("identical traces of {} IL instructions but different final states (state seed {})", m, seed),
                )),
                c,
                states,
                log,
                ticks,
                true,
            );
        }
        log.str(&refr.end);
    }
    let overlap = if c.get("overlap.block-entered-inside-lifted-window") > 0 { "overlap" } else { "no-overlap" };
    states.insert(format!(
        "{}|{}|cap{}|win-{}|{}|{}|end-{}",
        arch.name(),
        case.mem_impl,
        match cap {
            None => "none".to_string(),
            Some(x) if x <= 16 => "<=16".into(),
            Some(_) => ">16".into(),
        },
        window_class,
        overlap,
        sig(case, "").split("fault=").nth(1).unwrap_or(""),
        term_kind
    ));
    done(None, c, states, log, ticks.max(1), nontrivial)
}

// ---------------------------------------------------------------- generation

fn gen_op(rng: &mut Rng, arch: Arch) -> Slot {
    Slot::Op {
        form: rng.below(asm::num_forms(arch) as u64) as u8,
        a: rng.below(8) as u8,
        b: rng.below(8) as u8,
        c: rng.below(8) as u8,
        imm: if rng.chance(1, 3) { rng.below(8) as u32 } else { rng.next() as u32 },
    }
}

pub fn generate(run_seed: u64, index: u64) -> Case {
    let mut rng = Rng::new(run_seed);
    let fault_free = index % 4 == 0;
    let arch = *rng.pick(&asm::ALL_ARCHS);
    // (not MIPS: its three graphs per jump make the same chain take a minute)
    if !arch.is_mips() && rng.chance(1, 40_000) {
        // very rarely: a function of tens of thousands of basic blocks (a chain of jumps to
        // the next instruction), beyond any 16-bit count a translator might keep
        let n = rng.range(66_000, 70_000) as usize;
        let mut slots: Vec<Slot> = (0..n).map(|i| Slot::Jump { target: i + 1, short: true, delay: None }).collect();
        slots.push(Slot::Term { kind: 0, a: 0, delay: None });
        return Case {
            arch,
            slots,
            base: 0x40_0000,
            gaps: Vec::new(),
            eof_cut: 0,
            into_delay: Vec::new(),
            mid_targets: Vec::new(),
            mem_impl: "sim-own".into(),
            restore: Vec::new(),
            perms_on: "backing".into(),
            window_cap: None,
            manual_edges: Vec::new(),
            state_seeds: vec![rng.next()],
            intrinsics: false,
            fault_free: true,
            section_cuts: Vec::new(),
            entry_slot: 0,
        };
    }
    let n = rng.range(3, 48) as usize;
    let pad_rate = *rng.pick(&[0u64, 10, 30]);
    let branch_rate = *rng.pick(&[5u64, 15, 30]);
    let raw_rate = *rng.pick(&[0u64, 0, 20, 50]);
    let straight = straight_units(arch);
    let mut slots: Vec<Slot> = Vec::new();
    let delay = |rng: &mut Rng| -> Option<Box<Slot>> {
        if arch.is_mips() && rng.chance(3, 4) {
            Some(Box::new(gen_op(rng, arch)))
        } else {
            None
        }
    };
    for i in 0..n {
        let last = i + 1 == n;
        let r = rng.below(100);
        let s = if last {
            Slot::Term { kind: rng.below(3) as u8, a: rng.below(8) as u8, delay: delay(&mut rng) }
        } else if r < pad_rate {
            Slot::Pad(rng.range(1, 9) as u8)
        } else if r < pad_rate + branch_rate {
            let target = rng.usize_below(n);
            match rng.below(10) {
                0..=5 if asm::has_cond(arch) => Slot::Cond {
                    cc: rng.below(asm::num_cc(arch) as u64) as u8,
                    a: rng.below(8) as u8,
                    b: rng.below(8) as u8,
                    target,
                    short: rng.chance(1, 2),
                    delay: delay(&mut rng),
                },
                6 | 7 => Slot::Jump { target, short: rng.chance(1, 2), delay: delay(&mut rng) },
                8 => Slot::Call { target, delay: delay(&mut rng) },
                _ => Slot::Term { kind: rng.below(3) as u8, a: rng.below(8) as u8, delay: delay(&mut rng) },
            }
        } else if !straight.is_empty() && rng.below(100) < raw_rate {
            Slot::Raw(rng.pick(&straight).clone())
        } else {
            gen_op(&mut rng, arch)
        };
        slots.push(s);
    }
    let align = arch.insn_align();
    let region = match rng.below(8) {
        0 => 0x1000,
        1 => 0x40_0000,
        2 => 0x7fff_0000u64,
        3 if arch.addr_bits() == 64 => 0x3fff_ffff_0000_0000,
        // addresses with bit 31 set (sign-extension of 32-bit address arithmetic), and the
        // last 64 KiB below 2^32
        4 => 0x8000_0000u64,
        5 => 0xfffe_0000u64,
        // 64-bit code lying across the 2^32 line
        6 if arch.addr_bits() == 64 => 0xffff_f000u64 + if rng.chance(1, 2) { 0xf00 } else { 0 },
        _ => 0x1_0000 * rng.range(1, 0xfff),
    };
    let base = if rng.chance(1, 3) {
        // end of a 1024-byte page of the copy-on-write layer: the image spans two pages
        (region + 1024 * rng.range(1, 3) - rng.range(1, 100)) & !(align - 1)
    } else {
        (region + rng.below(4096)) & !(align - 1)
    };
    let intrinsics = rng.chance(1, 2);
    if intrinsics && rng.chance(1, 2) {
        let units = intrinsic_units(arch);
        if !units.is_empty() {
            for i in 0..n - 1 {
                if matches!(slots[i], Slot::Op { .. } | Slot::Pad(_)) && rng.chance(1, 8) {
                    slots[i] = Slot::Raw(rng.pick(&units).clone());
                }
            }
        }
    }
    let mut case = Case {
        arch,
        slots,
        base,
        gaps: Vec::new(),
        eof_cut: 0,
        into_delay: Vec::new(),
        mid_targets: Vec::new(),
        mem_impl: rng.pick(&["sim-own", "sim-default", "backing", "layered"]).to_string(),
        restore: Vec::new(),
        perms_on: rng.pick(&["backing", "paged", "both"]).to_string(),
        window_cap: None,
        manual_edges: Vec::new(),
        state_seeds: vec![rng.next(), rng.next()],
        intrinsics,
        fault_free,
        section_cuts: Vec::new(),
        entry_slot: 0,
    };
    if rng.chance(1, 5) {
        case.entry_slot = rng.usize_below(n);
    }
    if (case.mem_impl == "backing" || case.mem_impl == "layered") && rng.chance(1, 2) {
        for _ in 0..rng.range(1, 4) {
            case.section_cuts.push(rng.range(1, 300) as usize);
        }
    }
    if case.mem_impl == "layered" {
        for _ in 0..rng.range(0, 6) {
            case.restore.push((rng.usize_below(n), *rng.pick(&[1usize, 2, 4, 8, 16, 32])));
        }
    }
    if !fault_free {
        if rng.chance(1, 2) {
            case.window_cap = Some(if arch.is_x86() { rng.range(16, 64) as usize } else { (rng.range(1, 16) * 4) as usize });
        }
        if rng.chance(1, 4) {
            let unit = if arch.is_x86() { 1 } else { 4 };
            case.eof_cut = (rng.range(1, 12) as usize) * if rng.chance(1, 2) { unit } else { 1 };
        }
        if rng.chance(1, 4) {
            // holes only behind slots that do not fall through
            let cands: Vec<usize> = (0..n - 1).filter(|i| matches!(case.slots[*i], Slot::Jump { .. } | Slot::Term { .. })).collect();
            for _ in 0..rng.range(1, 2) {
                if !cands.is_empty() {
                    case.gaps.push((*rng.pick(&cands), rng.range(1, 200)));
                }
            }
            case.gaps.sort();
            case.gaps.dedup_by_key(|g| g.0);
        }
        if rng.chance(1, 8) {
            // a small hole that execution falls into, with more code mapped right behind it
            // (within the same translation window): the stream ends at the hole
            let cands: Vec<usize> = (0..n - 1).filter(|i| matches!(case.slots[*i], Slot::Op { .. } | Slot::Pad(_) | Slot::Raw(_))).collect();
            if !cands.is_empty() {
                let unit = if arch.is_x86() { 1 } else { 4 };
                case.gaps.push((*rng.pick(&cands), rng.range(1, 6) * unit));
                case.gaps.sort();
                case.gaps.dedup_by_key(|g| g.0);
            }
        }
        if rng.chance(1, 4) {
            let terms: Vec<usize> = (0..n).filter(|i| matches!(case.slots[*i], Slot::Term { kind, .. } if !(arch.is_x86() && kind % 3 == 1))).collect();
            for _ in 0..rng.range(1, 3) {
                if !terms.is_empty() {
                    let h = *rng.pick(&terms);
                    // one manual edge per head: two edges out of one block would be the
                    // requester's own ambiguity, not the translator's
                    let from_h: Vec<(usize, usize, bool)> = case.manual_edges.iter().filter(|e| e.0 == h).cloned().collect();
                    if from_h.is_empty() {
                        case.manual_edges.push((h, rng.usize_below(n), rng.chance(1, 2)));
                    } else if from_h.len() == 1 && from_h[0].2 {
                        // a jump table: a second guarded edge to another tail (see execute)
                        case.manual_edges.push((h, rng.usize_below(n), true));
                    }
                }
            }
        }
        if rng.chance(1, 8) {
            let jumps: Vec<(usize, usize)> = (0..n)
                .filter_map(|i| match &case.slots[i] {
                    Slot::Jump { target, .. } => Some((i, (*target).min(n - 1))),
                    _ => None,
                })
                .collect();
            if !jumps.is_empty() {
                let (h, t) = *rng.pick(&jumps);
                if case.manual_edges.iter().all(|e| e.0 != h) {
                    case.manual_edges.push((h, t, rng.chance(2, 3)));
                }
            }
        }
        if arch.is_mips() && rng.chance(1, 6) {
            for i in 0..n {
                if target_of(&case.slots[i]).is_some() && rng.chance(1, 2) {
                    case.into_delay.push(i);
                }
            }
        }
        if arch.is_x86() && rng.chance(1, 4) {
            // carriers: `mov r, imm32` whose immediate is four one-byte instructions; branches
            // aimed at a carrier land inside it
            let singles: Vec<u8> = if arch == Arch::X86 {
                vec![0x90, 0x40, 0x41, 0x42, 0x48, 0x49, 0x4a, 0x91, 0x92, 0xf8, 0xf9, 0xfc, 0x98, 0x99, 0x50, 0x58]
            } else {
                vec![0x90, 0x91, 0x92, 0xf8, 0xf9, 0xfc, 0x98, 0x99, 0x50, 0x58]
            };
            for i in 0..n {
                if let Some(t) = target_of(&case.slots[i]) {
                    let t = t.min(n - 1);
                    if t + 1 < n && matches!(case.slots[t], Slot::Op { .. } | Slot::Pad(_) | Slot::Raw(_)) && rng.chance(1, 2) {
                        let mut b = vec![0xb8 + [0u8, 1, 2, 6, 7][rng.usize_below(5)]];
                        for _ in 0..4 {
                            b.push(*rng.pick(&singles));
                        }
                        case.slots[t] = Slot::Raw(asm::hex(&b));
                        case.mid_targets.push((i, rng.range(1, 4) as u8));
                    }
                }
            }
        }
    }
    case
}

// ---------------------------------------------------------------- minimisation

pub fn minimise(case: &Case, class: &str) -> Case {
    let same = |c: &Case| matches!(execute(c).violation, Some(v) if v.class == class);
    let mut best = case.clone();
    macro_rules! attempt {
        ($cand:expr) => {{
            let cand = $cand;
            if same(&cand) {
                best = cand;
                true
            } else {
                false
            }
        }};
    }
    // a giant case costs seconds per execution: only try halving it, then report it as it is
    if best.slots.len() > 4000 {
        while best.slots.len() > 4000 {
            let keep = best.slots.len() / 2;
            let mut c = best.clone();
            let term = c.slots.last().cloned().unwrap();
            c.slots.truncate(keep);
            c.slots.push(term);
            for s in c.slots.iter_mut() {
                if let Slot::Cond { target, .. } | Slot::Jump { target, .. } | Slot::Call { target, .. } = s {
                    *target = (*target).min(keep);
                }
            }
            if !attempt!(c) {
                break;
            }
        }
        if best.slots.len() > 4000 {
            return best;
        }
    }
    // drop fault and configuration features
    let mut c = best.clone();
    c.manual_edges.clear();
    attempt!(c);
    let mut c = best.clone();
    c.gaps.clear();
    attempt!(c);
    let mut c = best.clone();
    c.eof_cut = 0;
    attempt!(c);
    let mut c = best.clone();
    c.window_cap = None;
    attempt!(c);
    let mut c = best.clone();
    c.restore.clear();
    attempt!(c);
    let mut c = best.clone();
    c.into_delay.clear();
    attempt!(c);
    let mut c = best.clone();
    c.mid_targets.clear();
    attempt!(c);
    let mut c = best.clone();
    c.section_cuts.clear();
    attempt!(c);
    let mut c = best.clone();
    c.entry_slot = 0;
    attempt!(c);
    if best.mem_impl != "sim-own" {
        let mut c = best.clone();
        c.mem_impl = "sim-own".into();
        attempt!(c);
    }
    if best.state_seeds.len() > 1 {
        for s in best.state_seeds.clone() {
            let mut c = best.clone();
            c.state_seeds = vec![s];
            if attempt!(c) {
                break;
            }
        }
    }
    // remove slots (retargeting branches), last slot stays a terminator
    let mut i = 0;
    let mut budget = 300;
    while i + 1 < best.slots.len() && budget > 0 {
        budget -= 1;
        let mut c = best.clone();
        c.slots.remove(i);
        for s in c.slots.iter_mut() {
            match s {
                Slot::Cond { target, .. } | Slot::Jump { target, .. } | Slot::Call { target, .. } => {
                    if *target > i {
                        *target -= 1;
                    }
                }
                _ => {}
            }
        }
        c.gaps = c.gaps.iter().filter(|g| g.0 != i).map(|g| if g.0 > i { (g.0 - 1, g.1) } else { *g }).collect();
        c.manual_edges = c.manual_edges.iter().map(|&(h, t, g)| (if h > i { h - 1 } else { h }, if t > i { t - 1 } else { t }, g)).collect();
        c.into_delay = c.into_delay.iter().filter(|x| **x != i).map(|x| if *x > i { x - 1 } else { *x }).collect();
        c.mid_targets = c.mid_targets.iter().filter(|x| x.0 != i).map(|x| if x.0 > i { (x.0 - 1, x.1) } else { *x }).collect();
        if c.entry_slot > i {
            c.entry_slot -= 1;
        }
        c.restore = c.restore.iter().map(|&(s, w)| (if s > i { s - 1 } else { s }, w)).collect();
        if !attempt!(c) {
            i += 1;
        }
    }
    // simplify slots to nops where possible
    for i in 0..best.slots.len() {
        if matches!(best.slots[i], Slot::Op { .. }) {
            let mut c = best.clone();
            c.slots[i] = Slot::Pad(1);
            attempt!(c);
        }
    }
    // round the base down
    for mask in [0xfffu64, 0x3f] {
        let mut c = best.clone();
        c.base &= !mask;
        attempt!(c);
    }
    best
}
