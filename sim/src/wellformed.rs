//! Structural checker for lifted IL (property C05): widths recomputed
//! bottom-up, operation width rules, per-instruction graph shape, and
//! exclusivity/exhaustiveness of guards under a finite set of valuations.

use crate::rng::Rng;
use crate::val::{collect_scalars, eval, sort_check, Scalars, Val};
use falcon::il;
use falcon::translator::BlockTranslationResult;
use num_bigint::BigUint;
use std::collections::{BTreeMap, BTreeSet};

#[derive(Clone, Debug)]
pub struct Finding {
    /// rule name = violation class
    pub rule: &'static str,
    /// address of the native instruction whose graph is at fault (if any)
    pub address: Option<u64>,
    pub detail: String,
}

#[derive(Default, Clone, Debug)]
pub struct Checked {
    pub expressions: u64,
    pub operations: u64,
    pub graphs: u64,
    pub guard_sets: u64,
    pub valuations: u64,
}

fn valuations(names: &BTreeMap<String, usize>, seed: u64) -> Vec<Scalars> {
    let mut out = Vec::new();
    let n = names.len();
    let all_one_bit = names.values().all(|b| *b == 1);
    if all_one_bit && n <= 4 {
        for m in 0..(1u32 << n) {
            let mut s = Scalars::new();
            for (i, (k, _)) in names.iter().enumerate() {
                s.insert(k.clone(), Val::from_u64(((m >> i) & 1) as u64, 1));
            }
            out.push(s);
        }
        return out;
    }
    let corner = |bits: usize, which: usize| -> Val {
        let ones = (BigUint::from(1u8) << bits) - BigUint::from(1u8);
        match which {
            0 => Val::from_u64(0, bits),
            1 => Val::new(ones, bits),
            2 => Val::from_u64(1, bits),
            3 => Val::new(BigUint::from(1u8) << (bits - 1), bits),
            _ => Val::new((BigUint::from(1u8) << (bits - 1)) - BigUint::from(1u8), bits),
        }
    };
    // uniform corners
    for w in 0..5 {
        let mut s = Scalars::new();
        for (k, b) in names {
            s.insert(k.clone(), corner(*b, w));
        }
        out.push(s);
    }
    // mixed corners and random values
    let mut rng = Rng::new(seed ^ 0xC05);
    for _ in 0..11 {
        let mut s = Scalars::new();
        for (k, b) in names {
            let v = if rng.chance(1, 2) {
                corner(*b, rng.usize_below(5))
            } else {
                Val::new(BigUint::from_bytes_be(&rng.bytes(b.div_ceil(8))), *b)
            };
            s.insert(k.clone(), v);
        }
        out.push(s);
    }
    out
}

/// exactly one of the guards (None = unguarded) must be enabled in every valuation
fn check_guard_set(
    guards: &[Option<&il::Expression>],
    seed: u64,
    what: &str,
    excl_rule: &'static str,
    exh_rule: &'static str,
    address: Option<u64>,
    checked: &mut Checked,
    out: &mut Vec<Finding>,
) {
    checked.guard_sets += 1;
    let unguarded = guards.iter().filter(|g| g.is_none()).count();
    if unguarded >= 2 || (unguarded == 1 && guards.len() > 1) {
        out.push(Finding {
            rule: excl_rule,
            address,
            detail: format!(
                "{}: {} unguarded among {} alternatives (more than one enabled in every state)",
                what,
                unguarded,
                guards.len()
            ),
        });
        return;
    }
    if unguarded == 1 {
        return; // single unguarded alternative
    }
    let mut names = BTreeMap::new();
    for g in guards.iter().flatten() {
        if sort_check(g) != Ok(1) {
            return; // reported by the width rules
        }
        collect_scalars(g, &mut names);
    }
    for sc in valuations(&names, seed) {
        checked.valuations += 1;
        let mut enabled = 0;
        for g in guards.iter().flatten() {
            match eval(g, &sc) {
                Ok(v) => {
                    if v.is_one() {
                        enabled += 1
                    }
                }
                // division by zero etc. inside a guard: not judged
                Err(_) => return,
            }
        }
        if enabled > 1 {
            out.push(Finding {
                rule: excl_rule,
                address,
                detail: format!(
                    "{}: {} alternatives enabled under {:?}",
                    what,
                    enabled,
                    sc.iter().map(|(k, v)| format!("{}={}", k, v.hex())).collect::<Vec<_>>()
                ),
            });
            return;
        }
        if enabled == 0 {
            out.push(Finding {
                rule: exh_rule,
                address,
                detail: format!(
                    "{}: no alternative enabled under {:?}",
                    what,
                    sc.iter().map(|(k, v)| format!("{}={}", k, v.hex())).collect::<Vec<_>>()
                ),
            });
            return;
        }
    }
}

fn check_expr(e: &il::Expression, what: &str, address: Option<u64>, checked: &mut Checked, out: &mut Vec<Finding>) -> Option<usize> {
    checked.expressions += 1;
    match sort_check(e) {
        Ok(b) => Some(b),
        Err(m) => {
            out.push(Finding {
                rule: "expr-sort",
                address,
                detail: format!("{}: {} in {}", what, m, e),
            });
            None
        }
    }
}

pub fn check_operation(op: &il::Operation, address: Option<u64>, checked: &mut Checked, out: &mut Vec<Finding>) {
    use il::Operation as O;
    checked.operations += 1;
    match op {
        O::Assign { dst, src } => {
            if let Some(b) = check_expr(src, "assign source", address, checked, out) {
                if dst.bits() != b {
                    out.push(Finding {
                        rule: "assign-width",
                        address,
                        detail: format!("{}-bit destination {} assigned a {}-bit value: {}", dst.bits(), dst.name(), b, op),
                    });
                }
            }
        }
        O::Load { dst, index } => {
            if dst.bits() == 0 || dst.bits() % 8 != 0 {
                out.push(Finding {
                    rule: "load-width",
                    address,
                    detail: format!("load into {}-bit scalar: {}", dst.bits(), op),
                });
            }
            if let Some(b) = check_expr(index, "load index", address, checked, out) {
                if b > 64 {
                    out.push(Finding { rule: "address-width", address, detail: format!("{}-bit load address: {}", b, op) });
                }
            }
        }
        O::Store { index, src } => {
            if let Some(b) = check_expr(src, "store source", address, checked, out) {
                if b == 0 || b % 8 != 0 {
                    out.push(Finding { rule: "store-width", address, detail: format!("store of a {}-bit value: {}", b, op) });
                }
            }
            if let Some(b) = check_expr(index, "store index", address, checked, out) {
                if b > 64 {
                    out.push(Finding { rule: "address-width", address, detail: format!("{}-bit store address: {}", b, op) });
                }
            }
        }
        O::Branch { target } => {
            if let Some(b) = check_expr(target, "branch target", address, checked, out) {
                if b > 64 {
                    out.push(Finding { rule: "address-width", address, detail: format!("{}-bit branch target: {}", b, op) });
                }
            }
        }
        O::Intrinsic { .. } | O::Nop { .. } => {}
    }
}

pub fn check_graph(address: u64, g: &il::ControlFlowGraph, seed: u64, checked: &mut Checked, out: &mut Vec<Finding>) {
    checked.graphs += 1;
    let a = Some(address);
    let blocks: BTreeSet<usize> = g.blocks().iter().map(|b| b.index()).collect();
    let (entry, exit) = match (g.entry(), g.exit()) {
        (Some(e), Some(x)) if blocks.contains(&e) && blocks.contains(&x) => (e, x),
        (e, x) => {
            out.push(Finding {
                rule: "graph-entry-exit",
                address: a,
                detail: format!("entry {:?} / exit {:?} not set to existing blocks ({} blocks)", e, x, blocks.len()),
            });
            return;
        }
    };
    let mut succ: BTreeMap<usize, Vec<&il::Edge>> = BTreeMap::new();
    for e in g.edges() {
        if !blocks.contains(&e.head()) || !blocks.contains(&e.tail()) {
            out.push(Finding {
                rule: "graph-dangling-edge",
                address: a,
                detail: format!("edge {}->{} names a missing block", e.head(), e.tail()),
            });
            return;
        }
        succ.entry(e.head()).or_default().push(e);
    }
    // exit reachable from entry
    let mut seen = BTreeSet::new();
    let mut stack = vec![entry];
    while let Some(b) = stack.pop() {
        if seen.insert(b) {
            for e in succ.get(&b).map(|v| v.as_slice()).unwrap_or(&[]) {
                stack.push(e.tail());
            }
        }
    }
    if !seen.contains(&exit) {
        out.push(Finding {
            rule: "graph-entry-exit",
            address: a,
            detail: format!("exit block {} is not reachable from entry block {}", exit, entry),
        });
    }
    for b in g.blocks() {
        for i in b.instructions() {
            check_operation(i.operation(), a, checked, out);
        }
    }
    for e in g.edges() {
        if let Some(c) = e.condition() {
            if let Some(b) = check_expr(c, "edge guard", a, checked, out) {
                if b != 1 {
                    out.push(Finding { rule: "guard-width", address: a, detail: format!("{}-bit edge guard {}", b, c) });
                }
            }
        }
    }
    for (head, edges) in &succ {
        let guards: Vec<Option<&il::Expression>> = edges.iter().map(|e| e.condition()).collect();
        check_guard_set(
            &guards,
            seed ^ (*head as u64),
            &format!("out-edges of block {}", head),
            "edges-not-exclusive",
            "edges-not-exhaustive",
            a,
            checked,
            out,
        );
    }
}

pub fn check_block_result(r: &BlockTranslationResult, seed: u64, checked: &mut Checked) -> Vec<Finding> {
    let mut out = Vec::new();
    for (address, g) in r.instructions() {
        check_graph(*address, g, seed, checked, &mut out);
    }
    for (_, c) in r.successors() {
        if let Some(c) = c {
            if let Some(b) = check_expr(c, "successor condition", None, checked, &mut out) {
                if b != 1 {
                    out.push(Finding { rule: "guard-width", address: None, detail: format!("{}-bit successor condition {}", b, c) });
                }
            }
        }
    }
    // the lifted block as a whole (the per-instruction graphs chained the way
    // BlockTranslationResult::blockify chains them): still exactly one enabled out-edge
    // per block. Catches an instruction graph whose exit block keeps an out-edge of its own.
    if out.is_empty() && r.instructions().len() >= 2 {
        if let Ok(cfg) = r.blockify() {
            let mut succ: BTreeMap<usize, Vec<&il::Edge>> = BTreeMap::new();
            for e in cfg.edges() {
                succ.entry(e.head()).or_default().push(e);
            }
            for (head, edges) in &succ {
                let guards: Vec<Option<&il::Expression>> = edges.iter().map(|e| e.condition()).collect();
                let address = cfg
                    .block(*head)
                    .ok()
                    .and_then(|b| b.instructions().iter().rev().find_map(|i| i.address()));
                check_guard_set(
                    &guards,
                    seed ^ 0xb10c ^ (*head as u64),
                    &format!("out-edges of block {} of the blockified result", head),
                    "edges-not-exclusive",
                    "edges-not-exhaustive",
                    address,
                    checked,
                    &mut out,
                );
            }
            // and every instruction of the lifted block can be reached from its entry (the
            // graphs were chained entry to exit, none was left hanging)
            if let Some(entry) = cfg.entry() {
                let mut seen: BTreeSet<usize> = BTreeSet::new();
                let mut todo = vec![entry];
                while let Some(b) = todo.pop() {
                    if seen.insert(b) {
                        todo.extend(succ.get(&b).into_iter().flatten().map(|e| e.tail()));
                    }
                }
                for b in cfg.blocks() {
                    if !seen.contains(&b.index()) {
                        if let Some(i) = b.instructions().first() {
                            out.push(Finding {
                                rule: "blockify-unreachable",
                                address: i.address(),
                                detail: format!(
                                    "block {} of the blockified result ('{}' ..) cannot be reached from its entry block {}",
                                    b.index(),
                                    i,
                                    entry
                                ),
                            });
                            break;
                        }
                    }
                }
            }
        }
    }
    if !r.successors().is_empty() {
        // successors naming the same address are one alternative: merge them
        let guards: Vec<Option<&il::Expression>> = r.successors().iter().map(|s| s.1.as_ref()).collect();
        check_guard_set(
            &guards,
            seed ^ 0x5cc,
            "successors of the lifted block",
            "successors-not-exclusive",
            "successors-not-exhaustive",
            r.instructions().last().map(|x| x.0),
            checked,
            &mut out,
        );
    }
    out
}
