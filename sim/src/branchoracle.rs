//! A machine-level model of the conditional branches the lift-sim generator emits,
//! independent of the lifter: decode the instruction word at `pc`, read the architectural
//! registers / flags from the state *before* the instruction, say whether the branch is
//! taken and where it goes. Used by C06's one-instruction-at-a-time run to judge the
//! direction the lifted instruction takes (both runs share the lifter, so a wrong branch
//! condition would otherwise move both alike).

use crate::asm::Arch;
use crate::val::Scalars;
use num_traits::ToPrimitive;

#[derive(Clone, Debug, PartialEq, Eq)]
pub struct Expect {
    pub taken: bool,
    pub target: u64,
    pub fallthrough: u64,
    pub what: String,
}

fn reg(sc: &Scalars, name: &str) -> Option<u64> {
    sc.get(name).and_then(|v| v.v.to_u64())
}

fn flag(sc: &Scalars, name: &str) -> Option<bool> {
    sc.get(name).filter(|v| v.bits == 1).and_then(|v| v.v.to_u64()).map(|v| v == 1)
}

const MIPS_REGS: [&str; 32] = [
    "$zero", "$at", "$v0", "$v1", "$a0", "$a1", "$a2", "$a3", "$t0", "$t1", "$t2", "$t3", "$t4", "$t5", "$t6", "$t7", "$s0", "$s1",
    "$s2", "$s3", "$s4", "$s5", "$s6", "$s7", "$t8", "$t9", "$k0", "$k1", "$gp", "$sp", "$fp", "$ra",
];

fn mips_reg(sc: &Scalars, n: u32) -> Option<u32> {
    if n == 0 {
        Some(0)
    } else {
        reg(sc, MIPS_REGS[n as usize]).map(|v| v as u32)
    }
}

fn sext(v: u32, bits: u32) -> i64 {
    let shift = 64 - bits;
    (((v as u64) << shift) as i64) >> shift
}

pub fn expect(arch: Arch, bytes: &[u8], pc: u64, sc: &Scalars) -> Option<Expect> {
    match arch {
        Arch::Mips | Arch::Mipsel => {
            if bytes.len() < 4 {
                return None;
            }
            let b = [bytes[0], bytes[1], bytes[2], bytes[3]];
            let w = if arch == Arch::Mips { u32::from_be_bytes(b) } else { u32::from_le_bytes(b) };
            let (op, rs, rt) = (w >> 26, (w >> 21) & 31, (w >> 16) & 31);
            let target = pc.wrapping_add(4).wrapping_add((sext(w & 0xffff, 16) << 2) as u64) & 0xffff_ffff;
            let fallthrough = pc.wrapping_add(8);
            let s = mips_reg(sc, rs)?;
            let (taken, what) = match op {
                4 => (s == mips_reg(sc, rt)?, "beq"),
                5 => (s != mips_reg(sc, rt)?, "bne"),
                6 if rt == 0 => ((s as i32) <= 0, "blez"),
                7 if rt == 0 => ((s as i32) > 0, "bgtz"),
                1 if rt == 0 => ((s as i32) < 0, "bltz"),
                1 if rt == 1 => ((s as i32) >= 0, "bgez"),
                _ => return None,
            };
            Some(Expect { taken, target, fallthrough, what: format!("{} rs={:#x}", what, s) })
        }
        Arch::X86 | Arch::Amd64 => {
            // loopne / loope / loop / j(e/r)cxz, with or without the address-size prefix that
            // selects the narrower counter
            let (pfx67, rest) = match bytes {
                [0x67, rest @ ..] => (true, rest),
                _ => (false, bytes),
            };
            if let [op @ 0xe0..=0xe3, d, ..] = rest {
                let len = if pfx67 { 3u64 } else { 2 };
                let fallthrough = pc.wrapping_add(len);
                let mut target = fallthrough.wrapping_add(*d as i8 as i64 as u64);
                if arch == Arch::X86 {
                    target &= 0xffff_ffff;
                }
                let (name, bits) = match (arch, pfx67) {
                    (Arch::Amd64, false) => ("rcx", 64u32),
                    (Arch::Amd64, true) => ("rcx", 32),
                    (_, false) => ("ecx", 32),
                    (_, true) => ("ecx", 16),
                };
                let mask = if bits == 64 { u64::MAX } else { (1u64 << bits) - 1 };
                let count = reg(sc, name)? & mask;
                let after = count.wrapping_sub(1) & mask;
                let (taken, what) = match op {
                    0xe0 => (after != 0 && !flag(sc, "ZF")?, "loopne"),
                    0xe1 => (after != 0 && flag(sc, "ZF")?, "loope"),
                    0xe2 => (after != 0, "loop"),
                    _ => (count == 0, "jcxz"),
                };
                return Some(Expect { taken, target, fallthrough, what: format!("{} with the {}-bit counter = {:#x}", what, bits, count) });
            }
            let (cc, len, disp) = match bytes {
                [op, d, ..] if (0x70..=0x7f).contains(op) => (op - 0x70, 2u64, *d as i8 as i64),
                [0x0f, op, d0, d1, d2, d3, ..] if (0x80..=0x8f).contains(op) => (op - 0x80, 6u64, i32::from_le_bytes([*d0, *d1, *d2, *d3]) as i64),
                _ => return None,
            };
            let fallthrough = pc.wrapping_add(len);
            let mut target = fallthrough.wrapping_add(disp as u64);
            if arch == Arch::X86 {
                target &= 0xffff_ffff;
            }
            let (cf, zf, sf, of, pf) = (flag(sc, "CF")?, flag(sc, "ZF")?, flag(sc, "SF")?, flag(sc, "OF")?, flag(sc, "PF")?);
            let base = match cc >> 1 {
                0 => of,
                1 => cf,
                2 => zf,
                3 => cf || zf,
                4 => sf,
                5 => pf,
                6 => sf != of,
                _ => zf || (sf != of),
            };
            let taken = if cc & 1 == 1 { !base } else { base };
            Some(Expect { taken, target, fallthrough, what: format!("jcc {:#x} CF={} ZF={} SF={} OF={} PF={}", cc, cf as u8, zf as u8, sf as u8, of as u8, pf as u8) })
        }
        Arch::AArch64 | Arch::AArch64Eb => {
            if bytes.len() < 4 {
                return None;
            }
            let w = u32::from_le_bytes([bytes[0], bytes[1], bytes[2], bytes[3]]);
            let fallthrough = pc.wrapping_add(4);
            let xreg = |n: u32| -> Option<u64> {
                if n == 31 {
                    Some(0)
                } else {
                    reg(sc, &format!("x{}", n))
                }
            };
            if w & 0xff00_0010 == 0x5400_0000 {
                let cond = w & 0xf;
                let target = pc.wrapping_add((sext((w >> 5) & 0x7ffff, 19) << 2) as u64);
                let (n, z, c, v) = (flag(sc, "n")?, flag(sc, "z")?, flag(sc, "c")?, flag(sc, "v")?);
                let base = match cond >> 1 {
                    0 => z,
                    1 => c,
                    2 => n,
                    3 => v,
                    4 => c && !z,
                    5 => n == v,
                    6 => n == v && !z,
                    _ => true,
                };
                let taken = if cond & 1 == 1 && cond != 15 { !base } else { base };
                Some(Expect { taken, target, fallthrough, what: format!("b.cond {:#x} n={} z={} c={} v={}", cond, n as u8, z as u8, c as u8, v as u8) })
            } else if w & 0x7e00_0000 == 0x3400_0000 {
                let sf = w >> 31 == 1;
                let nonzero = (w >> 24) & 1 == 1;
                let mut val = xreg(w & 31)?;
                if !sf {
                    val &= 0xffff_ffff;
                }
                let target = pc.wrapping_add((sext((w >> 5) & 0x7ffff, 19) << 2) as u64);
                Some(Expect { taken: (val != 0) == nonzero, target, fallthrough, what: format!("{} value={:#x}", if nonzero { "cbnz" } else { "cbz" }, val) })
            } else if w & 0x7e00_0000 == 0x3600_0000 {
                let bit = ((w >> 31) << 5) | ((w >> 19) & 31);
                let nonzero = (w >> 24) & 1 == 1;
                let val = xreg(w & 31)?;
                let set = (val >> bit) & 1 == 1;
                let target = pc.wrapping_add((sext((w >> 5) & 0x3fff, 14) << 2) as u64);
                Some(Expect { taken: set == nonzero, target, fallthrough, what: format!("{} bit {} of {:#x}", if nonzero { "tbnz" } else { "tbz" }, bit, val) })
            } else {
                None
            }
        }
        Arch::Ppc => None,
    }
}
