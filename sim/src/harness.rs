//! Worker-side plumbing shared by the simulators: argument parsing, progress
//! file, counters, panic capture, generic delta-debugging minimiser.

use serde::{Deserialize, Serialize};
use std::collections::BTreeMap;
use std::io::{Seek, SeekFrom, Write};
use std::panic::{catch_unwind, AssertUnwindSafe};

#[derive(Clone, Debug)]
pub struct Args {
    pub prop: String,
    pub tier: String,
    pub seed: u64,
    pub from: u64,
    pub to: u64,
    pub replay: Option<String>,
    pub replay_dir: String,
    pub progress: Option<String>,
    pub dump: Option<u64>,
    pub single: Option<u64>,
    pub extra: BTreeMap<String, String>,
}

pub fn parse_args() -> Args {
    let mut a = Args {
        prop: String::new(),
        tier: "quick".into(),
        seed: 1,
        from: 0,
        to: 0,
        replay: None,
        replay_dir: "/verif/replays".into(),
        progress: None,
        dump: None,
        single: None,
        extra: BTreeMap::new(),
    };
    let v: Vec<String> = std::env::args().collect();
    let mut i = 1;
    while i < v.len() {
        let k = v[i].clone();
        let mut val = || {
            i += 1;
            v.get(i).cloned().unwrap_or_else(|| {
                eprintln!("missing value for {}", k);
                std::process::exit(2)
            })
        };
        match k.as_str() {
            "--prop" => a.prop = val(),
            "--tier" => a.tier = val(),
            "--seed" => a.seed = val().parse().expect("seed"),
            "--from" => a.from = val().parse().expect("from"),
            "--to" => a.to = val().parse().expect("to"),
            "--replay" => a.replay = Some(val()),
            "--replay-dir" => a.replay_dir = val(),
            "--progress" => a.progress = Some(val()),
            "--dump" => a.dump = Some(val().parse().expect("dump")),
            "--single" => a.single = Some(val().parse().expect("single")),
            other if other.starts_with("--") => {
                let key = other[2..].to_string();
                let value = val();
                a.extra.insert(key, value);
            }
            other => {
                eprintln!("unknown argument {}", other);
                std::process::exit(2)
            }
        }
        i += 1;
    }
    a
}

/// Records the run index about to execute so the orchestrator can name the
/// run that aborted / hung the worker.
pub struct Progress {
    f: Option<std::fs::File>,
}

impl Progress {
    pub fn open(path: &Option<String>) -> Progress {
        Progress {
            f: path
                .as_ref()
                .map(|p| std::fs::File::create(p).expect("progress file")),
        }
    }
    pub fn at(&mut self, index: u64) {
        if let Some(f) = self.f.as_mut() {
            let _ = f.seek(SeekFrom::Start(0));
            let _ = f.write_all(format!("{:<20}\n", index).as_bytes());
        }
    }
}

/// named counters (BTreeMap: deterministic order)
#[derive(Clone, Debug, Default, Serialize, Deserialize)]
pub struct Counters(pub BTreeMap<String, u64>);

impl Counters {
    pub fn inc(&mut self, k: &str) {
        self.add(k, 1);
    }
    pub fn add(&mut self, k: &str, n: u64) {
        if let Some(v) = self.0.get_mut(k) {
            *v += n;
        } else {
            self.0.insert(k.to_string(), n);
        }
    }
    pub fn merge(&mut self, o: &Counters) {
        for (k, v) in &o.0 {
            self.add(k, *v);
        }
    }
    pub fn get(&self, k: &str) -> u64 {
        self.0.get(k).copied().unwrap_or(0)
    }
}

/// A violation found by a simulator run.
#[derive(Clone, Debug, Serialize, Deserialize, PartialEq, Eq)]
pub struct Violation {
    /// stable class name (DESIGN Appendix C)
    pub class: String,
    /// discriminators that, with the class, form the known-finding signature
    pub signature: String,
    /// human-readable detail (expected / observed)
    pub detail: String,
}

impl Violation {
    pub fn new(class: &str, signature: String, detail: String) -> Violation {
        Violation {
            class: class.to_string(),
            signature,
            detail,
        }
    }
}

thread_local! {
    static LAST_PANIC: std::cell::RefCell<Option<String>> = const { std::cell::RefCell::new(None) };
}

/// Install a panic hook that records location+message instead of printing.
pub fn install_quiet_panic_hook() {
    std::panic::set_hook(Box::new(|info| {
        let loc = info
            .location()
            .map(|l| format!("{}:{}", l.file(), l.line()))
            .unwrap_or_else(|| "?".into());
        let msg = if let Some(s) = info.payload().downcast_ref::<&str>() {
            s.to_string()
        } else if let Some(s) = info.payload().downcast_ref::<String>() {
            s.clone()
        } else {
            "<non-string panic>".to_string()
        };
        if std::env::var("SIM_PANIC_VERBOSE").is_ok() {
            eprintln!("panic: {} @ {}", msg, loc);
        }
        LAST_PANIC.with(|p| *p.borrow_mut() = Some(format!("{} @ {}", msg, loc)));
    }));
}

/// Run `f`, turning a panic into Err("message @ file:line").
pub fn catch<T>(f: impl FnOnce() -> T) -> Result<T, String> {
    LAST_PANIC.with(|p| *p.borrow_mut() = None);
    match catch_unwind(AssertUnwindSafe(f)) {
        Ok(v) => Ok(v),
        Err(_) => Err(LAST_PANIC
            .with(|p| p.borrow_mut().take())
            .unwrap_or_else(|| "panic (no message)".into())),
    }
}

/// Normalise a panic string into a stable site label: strip line numbers and
/// digits from the message so signatures survive unrelated edits.
pub fn panic_site(p: &str) -> String {
    let (msg, loc) = match p.rfind(" @ ") {
        Some(i) => (&p[..i], &p[i + 3..]),
        None => (p, "?"),
    };
    let file = loc.split(':').next().unwrap_or("?");
    let file = file.rsplit("/lib/").next().unwrap_or(file);
    let mut m = String::new();
    let mut last_hash = false;
    for c in msg.chars().take(80) {
        if c.is_ascii_digit() {
            if !last_hash {
                m.push('#');
            }
            last_hash = true;
        } else {
            m.push(c);
            last_hash = false;
        }
    }
    format!("{} [{}]", m.trim(), file)
}

/// Delta debugging over a vector: tries to remove chunks while `test` (true =
/// still fails the same way) holds. Returns the reduced vector.
pub fn ddmin<T: Clone>(items: Vec<T>, mut test: impl FnMut(&[T]) -> bool) -> Vec<T> {
    let mut cur = items;
    let mut n = 2usize;
    let mut budget = 400usize;
    while cur.len() >= 2 && budget > 0 {
        let chunk = cur.len().div_ceil(n);
        let mut reduced = false;
        let mut start = 0;
        while start < cur.len() && budget > 0 {
            let end = (start + chunk).min(cur.len());
            let mut cand = Vec::with_capacity(cur.len());
            cand.extend_from_slice(&cur[..start]);
            cand.extend_from_slice(&cur[end..]);
            budget -= 1;
            if !cand.is_empty() && test(&cand) {
                cur = cand;
                n = n.saturating_sub(1).max(2);
                reduced = true;
                break;
            }
            start = end;
        }
        if !reduced {
            if n >= cur.len() {
                break;
            }
            n = (n * 2).min(cur.len());
        }
    }
    // final pass: single removals
    let mut i = 0;
    while i < cur.len() && cur.len() > 1 && budget > 0 {
        let mut cand = cur.clone();
        cand.remove(i);
        budget -= 1;
        if test(&cand) {
            cur = cand;
        } else {
            i += 1;
        }
    }
    cur
}

/// Summary a worker prints as its last stdout line (JSON).
#[derive(Clone, Debug, Default, Serialize, Deserialize)]
pub struct WorkerSummary {
    pub prop: String,
    pub runs: u64,
    pub ticks: u64,
    pub counters: Counters,
    /// distinct abstract-state tuples seen by this worker
    pub states: Vec<String>,
    /// replay files written (one per violating run, already minimised)
    pub violations: Vec<ViolationRecord>,
    /// XOR-free rolling combination of per-run event-log hashes, in run order
    pub log_hash: u64,
    pub samples: Vec<serde_json::Value>,
}

#[derive(Clone, Debug, Serialize, Deserialize)]
pub struct ViolationRecord {
    pub index: u64,
    pub run_seed: u64,
    pub class: String,
    pub signature: String,
    pub detail: String,
    pub replay: String,
}
