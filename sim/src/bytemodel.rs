//! Reference memory: a byte map layered over an immutable backing byte map,
//! plus the permission model of DESIGN Appendix B.

use crate::val::Val;
use std::collections::{BTreeMap, BTreeSet};

pub const PAGE: u64 = 1024;

#[derive(Clone, Debug, PartialEq, Eq)]
pub struct ByteModel {
    pub big_endian: bool,
    pub stored: BTreeMap<u64, u8>,
    /// address -> (byte, permission bits)
    pub backing: BTreeMap<u64, (u8, u32)>,
    pub has_backing: bool,
    /// set_permissions calls in call order: (start, len, perms)
    pub perm_ranges: Vec<(u64, u64, u32)>,
    /// pages touched by any set_permissions call
    pub perm_pages: BTreeSet<u64>,
}

#[derive(Clone, Debug, PartialEq, Eq)]
pub enum PermExpect {
    /// must report exactly this
    Exactly(Option<u32>),
    /// page-granularity fallout of a set_permissions call: not compared
    Unspecified,
}

impl ByteModel {
    pub fn new(big_endian: bool) -> ByteModel {
        ByteModel {
            big_endian,
            stored: BTreeMap::new(),
            backing: BTreeMap::new(),
            has_backing: false,
            perm_ranges: Vec::new(),
            perm_pages: BTreeSet::new(),
        }
    }

    pub fn add_backing_region(&mut self, address: u64, data: &[u8], perms: u32) {
        self.has_backing = true;
        for (i, b) in data.iter().enumerate() {
            self.backing.insert(address + i as u64, (*b, perms));
        }
    }

    pub fn byte(&self, address: u64) -> Option<u8> {
        self.stored
            .get(&address)
            .copied()
            .or_else(|| self.backing.get(&address).map(|x| x.0))
    }

    /// None = absent (some byte neither stored nor backed)
    pub fn load_bytes(&self, address: u64, n: usize) -> Option<Vec<u8>> {
        let mut out = Vec::with_capacity(n);
        for i in 0..n as u64 {
            out.push(self.byte(address.wrapping_add(i))?);
        }
        Some(out)
    }

    pub fn load(&self, address: u64, bits: usize) -> Option<Val> {
        let b = self.load_bytes(address, bits / 8)?;
        Some(if self.big_endian {
            Val::from_be_bytes(&b)
        } else {
            Val::from_le_bytes(&b)
        })
    }

    pub fn store(&mut self, address: u64, v: &Val) {
        let b = if self.big_endian {
            v.to_be_bytes()
        } else {
            v.to_le_bytes()
        };
        for (i, x) in b.iter().enumerate() {
            self.stored.insert(address.wrapping_add(i as u64), *x);
        }
    }

    pub fn set_permissions(&mut self, address: u64, len: u64, perms: u32) {
        if len == 0 {
            return;
        }
        self.perm_ranges.push((address, len, perms));
        // (ranges never wrap; one may end exactly at 2^64)
        let mut p = address & !(PAGE - 1);
        let last = address + (len - 1);
        while p <= last {
            self.perm_pages.insert(p);
            match p.checked_add(PAGE) {
                Some(n) => p = n,
                None => break,
            }
        }
    }

    /// The latest `set_permissions` call whose page span covers `address`'s
    /// page decides: if its *range* contains the address the value is
    /// binding, otherwise (page-granularity fallout) nothing is compared.
    /// No such call: the backing's permissions (or none).
    pub fn permissions(&self, address: u64) -> PermExpect {
        let page = address & !(PAGE - 1);
        for &(start, len, perms) in self.perm_ranges.iter().rev() {
            let first_page = start & !(PAGE - 1);
            let last_page = (start + (len - 1)) & !(PAGE - 1);
            if page >= first_page && page <= last_page {
                if address >= start && address - start < len {
                    return PermExpect::Exactly(Some(perms));
                }
                return PermExpect::Unspecified;
            }
        }
        PermExpect::Exactly(self.backing.get(&address).map(|x| x.1))
    }

    /// merged view (stored over backing) for equality checks
    pub fn merged(&self) -> BTreeMap<u64, u8> {
        let mut m: BTreeMap<u64, u8> = self.backing.iter().map(|(a, x)| (*a, x.0)).collect();
        for (a, b) in &self.stored {
            m.insert(*a, *b);
        }
        m
    }
}
