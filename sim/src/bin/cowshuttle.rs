//! cow-sim, thread-placement engine (thorough tier): the owners of
//! copy-on-write state live on shuttle threads, are handed over through
//! shuttle channels, and shuttle's seeded scheduler (random and PCT) decides
//! the interleaving at operation boundaries and at every H1 simulation point
//! inside falcon. Scripts are data generated from the seed; the schedule of a
//! failing iteration is persisted by shuttle and replayed with
//! `--replay <file>`.

use serde::{Deserialize, Serialize};
use shuttle::scheduler::{PctScheduler, RandomScheduler};
use shuttle::sync::mpsc;
use shuttle::{Config, FailurePersistence, MaxSteps, Runner};
use simcommon::bytemodel::ByteModel;
use simcommon::c07;
use simcommon::harness::*;
use simcommon::refinterp::{self, RFunc, RLoc, RProgram, RState, StepResult};
use simcommon::rng::{run_seed, Rng};
use simcommon::val::{Scalars, Val};
use falcon::architecture::Endian;
use falcon::executor::{Driver, State};
use falcon::il;
use falcon::memory::backing;
use falcon::memory::paged::Memory;
use falcon::memory::MemoryPermissions;
use falcon::RC;
use num_bigint::BigUint;
use num_traits::Num;
use std::collections::BTreeMap;
use std::sync::Arc;
use std::time::Duration;

#[derive(Clone, Debug, Serialize, Deserialize)]
enum Op {
    Store { party: usize, addr: u64, hex: String, bits: usize },
    Load { party: usize, addr: u64, bits: usize },
    SetPerm { party: usize, addr: u64, len: u64, perms: u32 },
    /// clone a party and hand the clone to another thread
    Send { party: usize, to: usize },
    /// drop a party (never the last one)
    Drop { party: usize },
    Sweep,
}

#[derive(Clone, Debug, Serialize, Deserialize)]
struct C08Script {
    big_endian: bool,
    backing: Vec<(u64, String, u32)>,
    root_stores: Vec<(u64, String, usize)>,
    zones: Vec<(u64, u64)>,
    threads: Vec<Vec<Op>>,
}

#[derive(Clone, Debug, Serialize, Deserialize)]
struct Replay {
    property: String,
    engine: String,
    batch_seed: u64,
    index: u64,
    run_seed: u64,
    class: String,
    signature: String,
    detail: String,
    scheduler: String,
    schedule_file: String,
    c08: Option<C08Script>,
    c07: Option<c07::Script>,
    extra: Vec<String>,
}

fn unhex(s: &str) -> Vec<u8> {
    simcommon::asm::unhex(s)
}

fn gen_c08(seed: u64) -> C08Script {
    let mut rng = Rng::new(seed);
    let big_endian = rng.chance(1, 2);
    let zone = *rng.pick(&[0x3e8u64, 0x7e8, 0x1_0000_03e8]);
    let zones = vec![(zone, 48)];
    let backing = if rng.chance(2, 3) {
        vec![(zone + rng.range(0, 20), simcommon::asm::hex(&rng.bytes(24)), 5)]
    } else {
        vec![]
    };
    let mut root_stores = Vec::new();
    for _ in 0..rng.range(0, 5) {
        let bits = *rng.pick(&[8usize, 16, 32, 64, 128]);
        let addr = zone + rng.below(48 - bits as u64 / 8);
        root_stores.push((addr, simcommon::asm::hex(&rng.bytes(bits / 8)), bits));
    }
    let nthreads = rng.range(2, 3) as usize;
    let mut threads = Vec::new();
    for _ in 0..nthreads {
        let mut ops = Vec::new();
        for _ in 0..rng.range(2, 7) {
            let party = rng.usize_below(3);
            let bits = *rng.pick(&[8usize, 16, 32, 64, 128]);
            let addr = zone + rng.below(48 - bits as u64 / 8);
            ops.push(match rng.below(10) {
                0..=4 => Op::Store { party, addr, hex: simcommon::asm::hex(&rng.bytes(bits / 8)), bits },
                5 | 6 => Op::Load { party, addr, bits },
                7 => Op::Send { party, to: rng.usize_below(nthreads) },
                8 => {
                    if rng.chance(1, 2) {
                        Op::SetPerm { party, addr, len: rng.range(1, 1500), perms: *rng.pick(&[1u32, 3, 5, 7]) }
                    } else {
                        Op::Drop { party }
                    }
                }
                _ => Op::Sweep,
            });
        }
        threads.push(ops);
    }
    C08Script { big_endian, backing, root_stores, zones, threads }
}

struct Party {
    mem: Memory<il::Constant>,
    shadow: ByteModel,
}

fn check_load(p: &Party, addr: u64, bits: usize, ctx: &str) {
    let got = p.mem.load(addr, bits).unwrap_or_else(|e| panic!("C08-SHUTTLE load-error {}: {}", ctx, e));
    let want = p.shadow.load(addr, bits);
    let got = got.map(|c| Val::from_constant(&c));
    if got != want {
        panic!(
            "C08-SHUTTLE clone-leak {}: load(0x{:x},{}) = {:?}, own history says {:?}",
            ctx,
            addr,
            bits,
            got.map(|v| v.hex()),
            want.map(|v| v.hex())
        );
    }
}

fn sweep(p: &Party, zones: &[(u64, u64)], ctx: &str) {
    for &(s, l) in zones {
        for a in s..s + l {
            check_load(p, a, 8, ctx);
        }
    }
}

fn c08_scenario(script: &C08Script) {
    falcon::verif::set_point_hook(Some(|_site| shuttle::thread::sleep(Duration::ZERO)));
    let endian = if script.big_endian { Endian::Big } else { Endian::Little };
    let mut shadow = ByteModel::new(script.big_endian);
    let mut mem = if script.backing.is_empty() {
        Memory::<il::Constant>::new(endian)
    } else {
        let mut b = backing::Memory::new(endian.clone());
        for (a, h, p) in &script.backing {
            b.set_memory(*a, unhex(h), MemoryPermissions::from_bits_truncate(*p));
            shadow.add_backing_region(*a, &unhex(h), *p);
        }
        Memory::new_with_backing(endian, RC::new(b))
    };
    for (a, h, bits) in &script.root_stores {
        let v = Val::new(BigUint::from_bytes_be(&unhex(h)), *bits);
        mem.store(*a, v.to_constant()).unwrap();
        shadow.store(*a, &v);
    }
    let n = script.threads.len();
    let mut senders = Vec::new();
    let mut receivers = Vec::new();
    for _ in 0..n {
        let (tx, rx) = mpsc::channel::<Party>();
        senders.push(tx);
        receivers.push(Some(rx));
    }
    let mut handles = Vec::new();
    for t in 0..n {
        let ops = script.threads[t].clone();
        let zones = script.zones.clone();
        let rx = receivers[t].take().unwrap();
        let txs: Vec<mpsc::Sender<Party>> = senders.clone();
        let first = Party { mem: mem.clone(), shadow: shadow.clone() };
        handles.push(shuttle::thread::spawn(move || {
            let mut parties = vec![first];
            for (i, op) in ops.iter().enumerate() {
                while let Ok(p) = rx.try_recv() {
                    if parties.len() < 6 {
                        parties.push(p);
                    }
                }
                let ctx = format!("thread {} op {}", t, i);
                match op {
                    Op::Store { party, addr, hex, bits } => {
                        let k = party % parties.len();
                        let v = Val::new(BigUint::from_bytes_be(&unhex(hex)), *bits);
                        parties[k].mem.store(*addr, v.to_constant()).unwrap_or_else(|e| panic!("C08-SHUTTLE store-error {}: {}", ctx, e));
                        parties[k].shadow.store(*addr, &v);
                        check_load(&parties[k], *addr, *bits, &ctx);
                    }
                    Op::Load { party, addr, bits } => {
                        let k = party % parties.len();
                        check_load(&parties[k], *addr, *bits, &ctx);
                    }
                    Op::SetPerm { party, addr, len, perms } => {
                        let k = party % parties.len();
                        parties[k].mem.set_permissions(*addr, *len, MemoryPermissions::from_bits_truncate(*perms));
                        parties[k].shadow.set_permissions(*addr, *len, *perms);
                        let got = parties[k].mem.permissions(*addr).map(|p| p.bits());
                        if got != Some(*perms) {
                            panic!("C08-SHUTTLE perm-range {}: permissions(0x{:x}) = {:?} after set to {}", ctx, addr, got, perms);
                        }
                    }
                    Op::Send { party, to } => {
                        let k = party % parties.len();
                        let c = Party { mem: parties[k].mem.clone(), shadow: parties[k].shadow.clone() };
                        let _ = txs[*to % txs.len()].send(c);
                    }
                    Op::Drop { party } => {
                        if parties.len() > 1 {
                            let k = party % parties.len();
                            parties.remove(k);
                        }
                    }
                    Op::Sweep => {
                        for p in &parties {
                            sweep(p, &zones, &ctx);
                        }
                    }
                }
            }
            for p in &parties {
                sweep(p, &zones, &format!("thread {} final", t));
            }
        }));
    }
    drop(senders);
    drop(mem);
    for h in handles {
        h.join().unwrap();
    }
}

// ---- C07: forked drivers stepped on different threads, each against its own shadow

struct DriverParty {
    driver: Driver,
    prog: RProgram,
    loc: RLoc,
    st: RState,
}

fn c07_build(script: &c07::Script) -> Option<DriverParty> {
    let cfg = &script.config;
    let big = cfg.arch.big_endian();
    let endian = if big { Endian::Big } else { Endian::Little };
    let mut shadow = ByteModel::new(big);
    let mut back = backing::Memory::new(endian.clone());
    for r in &cfg.backing {
        let d = unhex(&r.data);
        if d.is_empty() {
            continue;
        }
        shadow.add_backing_region(r.address, &d, r.perms);
        back.set_memory(r.address, d, MemoryPermissions::from_bits_truncate(r.perms));
    }
    let mut mem = falcon::executor::Memory::new_with_backing(endian, RC::new(back));
    for (a, h) in &cfg.stores {
        for (i, b) in unhex(h).iter().enumerate() {
            mem.store(a + i as u64, il::const_(*b as u64, 8)).ok()?;
            shadow.stored.insert(a + i as u64, *b);
        }
    }
    let mut state = State::new(mem);
    let mut scalars = Scalars::new();
    for (n, h, b) in &cfg.scalars {
        let v = Val::new(BigUint::from_str_radix(h, 16).ok()?, *b);
        state.set_scalar(n.clone(), v.to_constant());
        scalars.insert(n.clone(), v);
    }
    let mut program = il::Program::new();
    for f in &cfg.funcs {
        program.add_function(f.build().ok()?);
    }
    let mut prog = RProgram::default();
    for f in program.functions() {
        prog.funcs.push(RFunc::from_function(f));
    }
    let f0 = program.function(0)?;
    let loc: il::ProgramLocation = il::RefProgramLocation::from_function(f0)?.ok()?.into();
    let rloc = prog.funcs[0].entry_loc(0)?;
    Some(DriverParty {
        driver: Driver::new(RC::new(program), loc, state, cfg.arch.architecture()),
        prog,
        loc: rloc,
        st: RState { scalars, mem: shadow, intrinsics_are_nops: false },
    })
}

fn c07_step(p: DriverParty, ctx: &str) -> Option<DriverParty> {
    let DriverParty { driver, prog, loc, mut st } = p;
    let r = driver.step();
    let s = refinterp::step(&prog, &loc, &mut st);
    match (r, s) {
        (Ok(nd), StepResult::Moved(l)) => {
            let got = nd.location().apply(nd.program()).ok().map(|x| {
                let fl: il::FunctionLocation = x.function_location().clone().into();
                (x.function().index(), fl)
            });
            let want = match l {
                RLoc::Instr { f, b, pos } => (Some(f), il::FunctionLocation::Instruction(b, prog.funcs[f].blocks[&b][pos].index)),
                RLoc::Edge { f, head, tail } => (Some(f), il::FunctionLocation::Edge(head, tail)),
                RLoc::Empty { f, b } => (Some(f), il::FunctionLocation::EmptyBlock(b)),
            };
            if got != Some(want.clone()) {
                panic!("C07-SHUTTLE step-location {}: driver at {:?}, reference at {:?}", ctx, got, want);
            }
            for (n, v) in &st.scalars {
                let g = nd.state().get_scalar(n).map(Val::from_constant);
                if g.as_ref() != Some(v) {
                    panic!("C07-SHUTTLE step-scalar {}: {} is {:?}, reference {:?}", ctx, n, g.map(|x| x.hex()), v.hex());
                }
            }
            Some(DriverParty { driver: nd, prog, loc: l, st })
        }
        (Err(_), StepResult::Stuck(_)) => None,
        // branches leave the program / ambiguity: this engine does not follow them
        (_, StepResult::Branch(_)) | (_, StepResult::Ambiguous(_)) => None,
        (Ok(_), StepResult::Stuck(m)) => panic!("C07-SHUTTLE ok-expected-err {}: reference stuck: {}", ctx, m),
        (Err(e), StepResult::Moved(l)) => panic!("C07-SHUTTLE step-error {}: Err({}) where the reference moves to {:?}", ctx, e, l),
    }
}

fn c07_scenario(script: &c07::Script) {
    falcon::verif::set_point_hook(Some(|_site| shuttle::thread::sleep(Duration::ZERO)));
    let root = match c07_build(script) {
        Some(r) => r,
        None => return,
    };
    let zones = script.config.zones.clone();
    let mut handles = Vec::new();
    for t in 0..3usize {
        let mine = DriverParty {
            driver: root.driver.clone(),
            prog: root.prog.clone(),
            loc: root.loc.clone(),
            st: root.st.clone(),
        };
        let zones = zones.clone();
        handles.push(shuttle::thread::spawn(move || {
            let mut p = Some(mine);
            // thread t runs t*3+4 steps so that siblings are at different places
            for i in 0..(4 + 3 * t) {
                p = match p {
                    Some(x) => c07_step(x, &format!("thread {} step {}", t, i)),
                    None => break,
                };
            }
            if let Some(p) = p {
                for &(s, l) in &zones {
                    for a in s..s + l {
                        let got = p.driver.state().memory().load(a, 8).unwrap().map(|c| Val::from_constant(&c));
                        let want = p.st.mem.byte(a).map(|b| Val::from_u64(b as u64, 8));
                        if got != want {
                            panic!("C07-SHUTTLE fork-leak thread {}: byte 0x{:x} is {:?}, reference {:?}", t, a, got.map(|v| v.hex()), want.map(|v| v.hex()));
                        }
                    }
                }
            }
        }));
    }
    drop(root);
    for h in handles {
        h.join().unwrap();
    }
}

fn config(dir: &str) -> Config {
    let mut c = Config::new();
    c.failure_persistence = FailurePersistence::File(Some(dir.into()));
    c.max_steps = MaxSteps::FailAfter(200_000);
    c.stack_size = 0x20_0000;
    c
}

fn newest_file(dir: &str) -> Option<String> {
    let mut best: Option<(std::time::SystemTime, String)> = None;
    for e in std::fs::read_dir(dir).ok()? {
        let e = e.ok()?;
        let m = e.metadata().ok()?.modified().ok()?;
        let p = e.path().to_string_lossy().to_string();
        if best.as_ref().map(|b| m > b.0).unwrap_or(true) {
            best = Some((m, p));
        }
    }
    best.map(|b| b.1)
}

fn main() {
    let args = parse_args();
    install_quiet_panic_hook();
    let prop = args.prop.clone();
    if let Some(path) = &args.replay {
        let r: Replay = serde_json::from_str(&std::fs::read_to_string(path).expect("read replay")).expect("parse replay");
        let (c08, c07s) = (r.c08.clone(), r.c07.clone());
        let res = catch(|| {
            shuttle::replay_from_file(
                move || {
                    if let Some(s) = &c08 {
                        c08_scenario(s)
                    } else if let Some(s) = &c07s {
                        c07_scenario(s)
                    }
                },
                &r.schedule_file,
            )
        });
        match res {
            Err(p) if p.contains("-SHUTTLE") || r.class == "panic" => {
                println!("REPRODUCED property={} class={} detail={}", r.property, r.class, p);
                std::process::exit(1);
            }
            Err(p) => {
                println!("DIFFERENT property={} detail={}", r.property, p);
                std::process::exit(3);
            }
            Ok(()) => {
                println!("NOT-REPRODUCED property={}", r.property);
                std::process::exit(3);
            }
        }
    }
    let iters: usize = args.extra.get("iters").map(|s| s.parse().unwrap()).unwrap_or(40);
    let mut progress = Progress::open(&args.progress);
    let mut sum = WorkerSummary { prop: prop.clone(), ..Default::default() };
    for index in args.from..args.to {
        progress.at(index);
        let rs = run_seed(args.seed, &format!("{}-shuttle", prop), index);
        let (c08s, c07s) = if prop == "C08" {
            (Some(gen_c08(rs)), None)
        } else {
            let mut s = c07::generate(rs, index | 1);
            s.actions.clear();
            (None, Some(s))
        };
        for sched in ["random", "pct"] {
            let dir = format!("{}/shuttle-{}-{}-{}-{}", args.replay_dir, prop, args.seed, index, sched);
            let _ = std::fs::create_dir_all(&dir);
            let (a, b) = (c08s.clone(), c07s.clone());
            let f = move || {
                if let Some(s) = &a {
                    c08_scenario(s)
                } else if let Some(s) = &b {
                    c07_scenario(s)
                }
            };
            let res = catch(|| {
                if sched == "random" {
                    Runner::new(RandomScheduler::new_from_seed(rs, iters), config(&dir)).run(f)
                } else {
                    Runner::new(PctScheduler::new_from_seed(rs, 3, iters), config(&dir)).run(f)
                }
            });
            sum.runs += iters as u64;
            sum.ticks += iters as u64;
            sum.counters.add(&format!("shuttle.iterations-{}", sched), iters as u64);
            match res {
                Ok(_) => {
                    let _ = std::fs::remove_dir_all(&dir);
                }
                Err(p) => {
                    let class = p.split("-SHUTTLE ").nth(1).and_then(|x| x.split_whitespace().next()).unwrap_or("panic").to_string();
                    let schedule_file = newest_file(&dir).unwrap_or_default();
                    let path = format!("{}/{}-{}-{}-shuttle-{}.json", args.replay_dir, prop, args.seed, index, sched);
                    let rep = Replay {
                        property: prop.clone(),
                        engine: "shuttle".into(),
                        batch_seed: args.seed,
                        index,
                        run_seed: rs,
                        class: class.clone(),
                        signature: format!("engine=shuttle scheduler={}", sched),
                        detail: p.clone(),
                        scheduler: sched.into(),
                        schedule_file,
                        c08: c08s.clone(),
                        c07: c07s.clone(),
                        extra: vec![],
                    };
                    std::fs::write(&path, serde_json::to_string_pretty(&rep).unwrap()).expect("write replay");
                    sum.violations.push(ViolationRecord {
                        index,
                        run_seed: rs,
                        class,
                        signature: format!("engine=shuttle scheduler={}", sched),
                        detail: p,
                        replay: path,
                    });
                }
            }
        }
    }
    let _: BTreeMap<u8, u8> = BTreeMap::new();
    let _ = Arc::new(0u8);
    println!("SUMMARY {}", serde_json::to_string(&sum).unwrap());
}
