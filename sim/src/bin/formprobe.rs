//! Development aid: lift every assembler form once and report what the lifter says.
use simcommon::asm::*;
use falcon::translator::Options;
fn main() {
    let opts = Options::default();
    for arch in ALL_ARCHS {
        let t = arch.translator();
        let mut ok = 0; let mut err = std::collections::BTreeMap::new();
        let mut slots: Vec<(String, Slot)> = Vec::new();
        for form in 0..num_forms(arch) { for k in 0..6u8 { slots.push((format!("op{}", form), Slot::Op{form, a:k, b:k+1, c:k+2, imm: 0x1234_5678u32.wrapping_mul(k as u32 + 1)})); } }
        for cc in 0..num_cc(arch) { slots.push((format!("cond{}", cc), Slot::Cond{cc, a:1, b:2, target:0, short:false, delay:None})); slots.push((format!("condS{}", cc), Slot::Cond{cc, a:1, b:2, target:0, short:true, delay:None})); }
        slots.push(("jump".into(), Slot::Jump{target:0, short:false, delay:None}));
        slots.push(("jumpS".into(), Slot::Jump{target:0, short:true, delay:None}));
        slots.push(("call".into(), Slot::Call{target:0, delay:None}));
        for kind in 0..3 { slots.push((format!("term{}", kind), Slot::Term{kind, a:1, delay:None})); }
        for n in 1..=9 { slots.push((format!("pad{}", n), Slot::Pad(n))); }
        for (name, s) in &slots {
            let bytes = encode(arch, s, 0x1000, 0x1040);
            assert_eq!(bytes.len(), slot_len(arch, s), "{:?} {}", arch, name);
            match t.translate_block(&bytes, 0x1000, &opts) {
                Ok(r) => { ok += 1;
                    if std::env::args().len() > 1 { println!("{} {} {} len={} n_ins={} succ={:?}", arch.name(), name, hex(&bytes), r.length(), r.instructions().len(), r.successors().iter().map(|s| format!("{:x}:{}", s.0, s.1.as_ref().map(|e| e.to_string()).unwrap_or("-".into()))).collect::<Vec<_>>()); }
                }
                Err(e) => { *err.entry(format!("{} {} -> {}", name, hex(&bytes), e)).or_insert(0) += 1; }
            }
        }
        println!("{}: ok={} err={}", arch.name(), ok, err.len());
        for (k, _) in err { println!("   ERR {}", k); }
    }
}
