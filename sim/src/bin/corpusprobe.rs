//! One-time tool: classify the harvested encodings into "straight-line" units
//! (lift alone, fall through to the next byte, no Branch/Intrinsic) usable as
//! Raw slots in lift-sim programs. Output is committed under corpus/.
use falcon::il;
use falcon::translator::Options;
use simcommon::asm::*;
use simcommon::c05::corpus;
use simcommon::harness::*;
fn main() {
    install_quiet_panic_hook();
    let opts = Options::default();
    for arch in [Arch::X86, Arch::Amd64, Arch::Mips, Arch::Ppc, Arch::AArch64] {
        let t = arch.translator();
        let mut out = Vec::new();
        for b in corpus(arch) {
            if b.is_empty() || b.len() > 24 { continue; }
            let ok = (|| {
                for addr in [0x1000u64, 0x7fff_0040] {
                    let r = match catch(|| t.translate_block(&b, addr, &opts)) { Ok(Ok(r)) => r, _ => return false };
                    if r.length() != b.len() { return false; }
                    if r.successors().len() != 1 || r.successors()[0] != (addr + b.len() as u64, None) { return false; }
                    for (_, g) in r.instructions() {
                        for blk in g.blocks() { for i in blk.instructions() {
                            if matches!(i.operation(), il::Operation::Branch{..} | il::Operation::Intrinsic{..}) { return false; }
                        } }
                    }
                }
                true
            })();
            if ok {
                // split into single instructions (a unit must not span an EOF cut)
                if let Ok(Ok(r)) = catch(|| t.translate_block(&b, 0x1000, &opts)) {
                    let mut starts: Vec<u64> = r.instructions().iter().map(|x| x.0).collect();
                    starts.sort(); starts.dedup();
                    starts.push(0x1000 + b.len() as u64);
                    for w in starts.windows(2) {
                        let seg = &b[(w[0] - 0x1000) as usize..(w[1] - 0x1000) as usize];
                        let single = match catch(|| t.translate_block(seg, 0x1000, &opts)) {
                            Ok(Ok(r2)) => r2.length() == seg.len() && r2.instructions().iter().all(|x| x.0 == 0x1000)
                                && r2.successors().len() == 1 && r2.successors()[0] == (0x1000 + seg.len() as u64, None),
                            _ => false,
                        };
                        if single { out.push(hex(seg)); }
                    }
                }
            }
        }
        out.sort(); out.dedup();
        std::fs::write(format!("corpus/{}_straight.txt", arch.name()), out.join("\n") + "\n").unwrap();
        println!("{}: {} straight-line units", arch.name(), out.len());
        // units that lift to a single intrinsic and fall through when unsupported
        // instructions are intrinsics (seeded random search plus the corpus)
        let mut iopts = Options::default();
        iopts.set_unsupported_are_intrinsics(true);
        let mut rng = simcommon::rng::Rng::new(0xC06 + arch as u64);
        let mut found: Vec<String> = Vec::new();
        let mut cands: Vec<Vec<u8>> = corpus(arch);
        for _ in 0..400_000 {
            if arch.is_x86() {
                let mut b = Vec::new();
                if rng.chance(1, 3) { b.push(*rng.pick(&[0x66u8, 0xf2, 0xf3])); }
                if rng.chance(2, 3) { b.push(0x0f); }
                b.push(rng.next() as u8);
                let tail = rng.usize_below(4); b.extend(rng.bytes(tail));
                cands.push(b);
            } else {
                cands.push(rng.bytes(4));
            }
        }
        for b in cands {
            if found.len() >= 60 { break; }
            let ok = (|| {
                for addr in [0x1000u64, 0x7fff_0040] {
                    let r = match catch(|| t.translate_block(&b, addr, &iopts)) { Ok(Ok(r)) => r, _ => return false };
                    if r.length() != b.len() || r.instructions().len() != 1 { return false; }
                    if r.successors().len() != 1 || r.successors()[0] != (addr + b.len() as u64, None) { return false; }
                    let mut intr = 0; let mut other = 0;
                    for (_, g) in r.instructions() { for blk in g.blocks() { for i in blk.instructions() {
                        match i.operation() { il::Operation::Intrinsic{..} => intr += 1, _ => other += 1 }
                    } } }
                    if intr != 1 || other != 0 { return false; }
                    // must be rejected (not silently accepted) without the option
                    if let Ok(Ok(_)) = catch(|| t.translate_block(&b, addr, &opts)) { return false; }
                }
                true
            })();
            if ok { found.push(hex(&b)); }
        }
        found.sort(); found.dedup();
        std::fs::write(format!("corpus/{}_intrinsic.txt", arch.name()), found.join("\n") + "\n").unwrap();
        println!("{}: {} intrinsic units", arch.name(), found.len());
    }
}
