use simcommon::asm::*;
use simcommon::val::collect_scalars;
use falcon::translator::Options;
use falcon::il;
use std::collections::BTreeMap;
fn main() {
    let opts = Options::default();
    for arch in ALL_ARCHS {
        let t = arch.translator();
        let mut names: BTreeMap<String, usize> = BTreeMap::new();
        let mut slots = Vec::new();
        for form in 0..num_forms(arch) { for k in 0..8u8 { slots.push(Slot::Op{form, a:k, b:k+1, c:k+2, imm: 0x1234_5678u32.wrapping_mul(k as u32 + 1)}); } }
        for cc in 0..num_cc(arch) { slots.push(Slot::Cond{cc, a:1, b:2, target:0, short:false, delay:None}); }
        slots.push(Slot::Call{target:0, delay:None});
        for kind in 0..3 { slots.push(Slot::Term{kind, a:1, delay:None}); }
        for s in &slots {
            let bytes = encode(arch, s, 0x1000, 0x1040);
            if let Ok(r) = t.translate_block(&bytes, 0x1000, &opts) {
                for (_, g) in r.instructions() { for b in g.blocks() { for i in b.instructions() {
                    match i.operation() {
                        il::Operation::Assign{dst, src} => { names.insert(dst.name().into(), dst.bits()); collect_scalars(src, &mut names); }
                        il::Operation::Load{dst, index} => { names.insert(dst.name().into(), dst.bits()); collect_scalars(index, &mut names); }
                        il::Operation::Store{index, src} => { collect_scalars(index, &mut names); collect_scalars(src, &mut names); }
                        il::Operation::Branch{target} => collect_scalars(target, &mut names),
                        _ => {}
                    }
                } } for e in g.edges() { if let Some(c) = e.condition() { collect_scalars(c, &mut names); } } }
                for (_, c) in r.successors() { if let Some(c) = c { collect_scalars(c, &mut names); } }
            }
        }
        println!("{}: {:?}", arch.name(), names.iter().filter(|(n,_)| !n.starts_with("temp")).collect::<Vec<_>>());
    }
}
