//! Triage aid (not a registered check): push every 32-bit word of a range
//! through one translator's translate_block and list the distinct panic sites
//! and well-formedness rule/mnemonic pairs. Used once to complete the
//! known-findings list for fixed-width ISAs.
use simcommon::asm::*;
use simcommon::c05::mnemonic_at;
use simcommon::harness::*;
use simcommon::wellformed::{check_block_result, Checked};
use falcon::translator::Options;
use std::collections::BTreeMap;
fn main() {
    let v: Vec<String> = std::env::args().collect();
    let arch = ALL_ARCHS.iter().copied().find(|a| a.name() == v[1]).expect("arch");
    let from: u64 = v[2].parse().unwrap();
    let to: u64 = v[3].parse().unwrap();
    let step: u64 = v.get(4).map(|s| s.parse().unwrap()).unwrap_or(1);
    install_quiet_panic_hook();
    let t = arch.translator();
    let mut found: BTreeMap<String, (u64, String)> = BTreeMap::new();
    for intr in [false, true] {
        let mut opts = Options::default();
        opts.set_unsupported_are_intrinsics(intr);
        let mut w = from;
        while w < to {
            let word = w as u32;
            let bytes = match arch { Arch::Mips | Arch::Ppc => word.to_be_bytes(), _ => word.to_le_bytes() };
            match catch(|| t.translate_block(&bytes, 0x1000, &opts)) {
                Err(p) => { let e = found.entry(format!("panic {}", p)).or_insert((0, hex(&bytes))); e.0 += 1; }
                Ok(Ok(r)) => {
                    let mut c = Checked::default();
                    for f in check_block_result(&r, w, &mut c) {
                        // a lone branch word without delay slot is the known MIPS slice-end case
                        let mn = mnemonic_at(arch, &bytes, 0x1000, 0);
                        let e = found.entry(format!("{} {}", f.rule, mn)).or_insert((0, hex(&bytes))); e.0 += 1;
                    }
                }
                Ok(Err(_)) => {}
            }
            w += step;
        }
    }
    for (k, (n, ex)) in found { println!("{} {} n={} example={}", arch.name(), k, n, ex); }
}
