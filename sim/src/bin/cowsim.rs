//! cow-sim worker: properties C08 and C07.
use simcommon::harness::*;
use simcommon::rng::{run_seed, LogHash};
use simcommon::{c07, c08};
use std::collections::{BTreeMap, BTreeSet};

fn main() {
    let args = parse_args();
    install_quiet_panic_hook();
    match args.prop.as_str() {
        "C08" => c08_main(&args),
        "C07" => c07_main(&args),
        other => {
            eprintln!("cowsim: unknown property {}", other);
            std::process::exit(2);
        }
    }
}

#[derive(serde::Serialize, serde::Deserialize)]
struct C08Replay {
    property: String,
    engine: String,
    batch_seed: u64,
    index: u64,
    run_seed: u64,
    class: String,
    signature: String,
    detail: String,
    original_actions: usize,
    script: c08::Script,
}

fn c08_main(args: &Args) {
    if let Some(path) = &args.replay {
        let text = std::fs::read_to_string(path).unwrap_or_else(|e| {
            eprintln!("cannot read replay {}: {}", path, e);
            std::process::exit(2)
        });
        let r: C08Replay = serde_json::from_str(&text).unwrap_or_else(|e| {
            eprintln!("bad replay file {}: {}", path, e);
            std::process::exit(2)
        });
        let out = c08::execute(&r.script);
        match out.violation {
            Some(v) if v.class == r.class => {
                println!("REPRODUCED property=C08 class={} signature={} detail={}", v.class, v.signature, v.detail);
                std::process::exit(1);
            }
            Some(v) => {
                println!("DIFFERENT property=C08 expected-class={} got-class={} detail={}", r.class, v.class, v.detail);
                std::process::exit(3);
            }
            None => {
                println!("NOT-REPRODUCED property=C08 expected-class={}", r.class);
                std::process::exit(3);
            }
        }
    }
    if let Some(i) = args.dump {
        let s = c08::generate(run_seed(args.seed, "C08", i), i);
        println!("{}", serde_json::to_string_pretty(&s).unwrap());
        return;
    }
    let mut progress = Progress::open(&args.progress);
    let mut sum = WorkerSummary { prop: "C08".into(), ..Default::default() };
    let mut states: BTreeSet<String> = BTreeSet::new();
    let mut minimised: BTreeMap<String, u32> = BTreeMap::new();
    let mut log = LogHash::new();
    let mut hashes: BTreeSet<u64> = BTreeSet::new();
    for index in args.from..args.to {
        progress.at(index);
        let rs = run_seed(args.seed, "C08", index);
        let script = c08::generate(rs, index);
        let out = c08::execute(&script);
        sum.runs += 1;
        sum.ticks += out.ticks;
        sum.counters.merge(&out.counters);
        states.extend(out.states.iter().cloned());
        log.u64(out.log.0);
        if out.counters.get("op.store") >= 1 && out.counters.get("op.load") + out.counters.get("sweeps") >= 1 {
            hashes.insert(out.log.0);
        }
        if sum.samples.len() < 2 && script.actions.len() <= 12 {
            sum.samples.push(serde_json::json!({"index": index, "run_seed": rs, "log_hash": format!("{:016x}", out.log.0), "script": script}));
        }
        if let Some(v) = out.violation {
            let key = format!("{} {}", v.class, v.signature);
            let n = minimised.entry(key).or_insert(0);
            *n += 1;
            if *n > 3 {
                sum.counters.inc(&format!("violation-not-minimised.{}", v.class));
                sum.violations.push(ViolationRecord { index, run_seed: rs, class: v.class, signature: v.signature, detail: v.detail, replay: String::new() });
                continue;
            }
            let small = c08::minimise(&script, &v.class);
            let v2 = c08::execute(&small).violation.unwrap_or(v.clone());
            let path = format!("{}/C08-{}-{}.json", args.replay_dir, args.seed, index);
            let rep = C08Replay {
                property: "C08".into(), engine: "cow-sim".into(), batch_seed: args.seed, index, run_seed: rs,
                class: v2.class.clone(), signature: v2.signature.clone(), detail: v2.detail.clone(),
                original_actions: script.actions.len(), script: small,
            };
            let _ = std::fs::create_dir_all(&args.replay_dir);
            std::fs::write(&path, serde_json::to_string_pretty(&rep).unwrap()).expect("write replay");
            sum.violations.push(ViolationRecord { index, run_seed: rs, class: v2.class, signature: v2.signature, detail: v2.detail, replay: path });
        }
    }
    sum.states = states.into_iter().collect();
    sum.log_hash = log.0;
    write_hashes(args, &hashes);
    println!("SUMMARY {}", serde_json::to_string(&sum).unwrap());
}

fn write_hashes(args: &Args, hashes: &BTreeSet<u64>) {
    // sorted, fixed-width hex lines: the orchestrator merges the workers' files with
    // `sort -m -u` and never holds all hashes in memory
    if let Some(path) = args.extra.get("hashes") {
        let mut buf = String::with_capacity(hashes.len() * 17);
        for h in hashes {
            buf.push_str(&format!("{:016x}\n", h));
        }
        std::fs::write(path, buf).expect("write hashes");
    }
}

#[derive(serde::Serialize, serde::Deserialize)]
struct C07Replay {
    property: String,
    engine: String,
    batch_seed: u64,
    index: u64,
    run_seed: u64,
    class: String,
    signature: String,
    detail: String,
    original_actions: usize,
    script: c07::Script,
}

fn c07_main(args: &Args) {
    if let Some(path) = &args.replay {
        let text = std::fs::read_to_string(path).unwrap_or_else(|e| {
            eprintln!("cannot read replay {}: {}", path, e);
            std::process::exit(2)
        });
        let r: C07Replay = serde_json::from_str(&text).unwrap_or_else(|e| {
            eprintln!("bad replay file {}: {}", path, e);
            std::process::exit(2)
        });
        let out = c07::execute(&r.script);
        match out.violation {
            Some(v) if v.class == r.class => {
                println!("REPRODUCED property=C07 class={} signature={} detail={}", v.class, v.signature, v.detail);
                std::process::exit(1);
            }
            Some(v) => {
                println!("DIFFERENT property=C07 expected-class={} got-class={} detail={}", r.class, v.class, v.detail);
                std::process::exit(3);
            }
            None => {
                println!("NOT-REPRODUCED property=C07 expected-class={}", r.class);
                std::process::exit(3);
            }
        }
    }
    if let Some(i) = args.dump {
        let s = c07::generate(run_seed(args.seed, "C07", i), i);
        println!("{}", serde_json::to_string_pretty(&s).unwrap());
        return;
    }
    let mut progress = Progress::open(&args.progress);
    let mut sum = WorkerSummary { prop: "C07".into(), ..Default::default() };
    let mut states: BTreeSet<String> = BTreeSet::new();
    let mut minimised: BTreeMap<String, u32> = BTreeMap::new();
    let mut log = LogHash::new();
    let mut hashes: BTreeSet<u64> = BTreeSet::new();
    for index in args.from..args.to {
        progress.at(index);
        let rs = run_seed(args.seed, "C07", index);
        let script = c07::generate(rs, index);
        let out = c07::execute(&script);
        sum.runs += 1;
        sum.ticks += out.ticks;
        sum.counters.merge(&out.counters);
        states.extend(out.states.iter().cloned());
        log.u64(out.log.0);
        if out.steps_compared >= 3 {
            hashes.insert(out.log.0);
        }
        if sum.samples.len() < 1 && script.actions.len() <= 6 && script.config.funcs[0].blocks.len() <= 3 {
            sum.samples.push(serde_json::json!({"index": index, "run_seed": rs, "log_hash": format!("{:016x}", out.log.0), "script": script}));
        }
        if let Some(v) = out.violation {
            let key = format!("{} {}", v.class, v.signature);
            let n = minimised.entry(key).or_insert(0);
            *n += 1;
            if *n > 3 {
                sum.counters.inc(&format!("violation-not-minimised.{}", v.class));
                sum.violations.push(ViolationRecord { index, run_seed: rs, class: v.class, signature: v.signature, detail: v.detail, replay: String::new() });
                continue;
            }
            let small = c07::minimise(&script, &v.class);
            let v2 = c07::execute(&small).violation.unwrap_or(v.clone());
            let path = format!("{}/C07-{}-{}.json", args.replay_dir, args.seed, index);
            let rep = C07Replay {
                property: "C07".into(), engine: "cow-sim".into(), batch_seed: args.seed, index, run_seed: rs,
                class: v2.class.clone(), signature: v2.signature.clone(), detail: v2.detail.clone(),
                original_actions: script.actions.len(), script: small,
            };
            let _ = std::fs::create_dir_all(&args.replay_dir);
            std::fs::write(&path, serde_json::to_string_pretty(&rep).unwrap()).expect("write replay");
            sum.violations.push(ViolationRecord { index, run_seed: rs, class: v2.class, signature: v2.signature, detail: v2.detail, replay: path });
        }
    }
    sum.states = states.into_iter().collect();
    sum.log_hash = log.0;
    write_hashes(args, &hashes);
    println!("SUMMARY {}", serde_json::to_string(&sum).unwrap());
}
