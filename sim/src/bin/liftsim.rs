//! lift-sim worker: properties C05 and C06.
use simcommon::{c05, c06};
use simcommon::harness::*;
use simcommon::rng::{run_seed, LogHash};
use std::collections::{BTreeMap, BTreeSet};

fn main() {
    let args = parse_args();
    install_quiet_panic_hook();
    match args.prop.as_str() {
        "C05" => c05_main(&args),
        "C06" => c06_main(&args),
        other => {
            eprintln!("liftsim: unknown property {}", other);
            std::process::exit(2);
        }
    }
}

fn write_hashes(args: &Args, hashes: &BTreeSet<u64>) {
    // sorted, fixed-width hex lines: the orchestrator merges the workers' files with
    // `sort -m -u` and never holds all hashes in memory
    if let Some(path) = args.extra.get("hashes") {
        let mut buf = String::with_capacity(hashes.len() * 17);
        for h in hashes {
            buf.push_str(&format!("{:016x}\n", h));
        }
        std::fs::write(path, buf).expect("write hashes");
    }
}

#[derive(serde::Serialize, serde::Deserialize)]
struct C05Replay {
    property: String,
    engine: String,
    batch_seed: u64,
    index: u64,
    run_seed: u64,
    class: String,
    signature: String,
    detail: String,
    original_bytes: usize,
    case: c05::Case,
}

fn c05_main(args: &Args) {
    if let Some(path) = &args.replay {
        let text = std::fs::read_to_string(path).unwrap_or_else(|e| {
            eprintln!("cannot read replay {}: {}", path, e);
            std::process::exit(2)
        });
        let r: C05Replay = serde_json::from_str(&text).unwrap_or_else(|e| {
            eprintln!("bad replay file {}: {}", path, e);
            std::process::exit(2)
        });
        let out = c05::execute(&r.case);
        match out.violation {
            Some(v) if v.class == r.class => {
                println!("REPRODUCED property=C05 class={} signature={} detail={}", v.class, v.signature, v.detail);
                std::process::exit(1);
            }
            Some(v) => {
                println!("DIFFERENT property=C05 expected-class={} got-class={} detail={}", r.class, v.class, v.detail);
                std::process::exit(3);
            }
            None => {
                println!("NOT-REPRODUCED property=C05 expected-class={}", r.class);
                std::process::exit(3);
            }
        }
    }
    if let Some(i) = args.dump {
        let s = c05::generate(run_seed(args.seed, "C05", i), i);
        println!("{}", serde_json::to_string_pretty(&s).unwrap());
        return;
    }
    let mut progress = Progress::open(&args.progress);
    let mut sum = WorkerSummary { prop: "C05".into(), ..Default::default() };
    let mut states: BTreeSet<String> = BTreeSet::new();
    let mut minimised: BTreeMap<String, u32> = BTreeMap::new();
    let mut log = LogHash::new();
    let mut hashes: BTreeSet<u64> = BTreeSet::new();
    for index in args.from..args.to {
        progress.at(index);
        let rs = run_seed(args.seed, "C05", index);
        let case = c05::generate(rs, index);
        let out = c05::execute(&case);
        sum.runs += 1;
        sum.ticks += out.ticks;
        sum.counters.merge(&out.counters);
        states.extend(out.states.iter().cloned());
        log.u64(out.log.0);
        if out.nontrivial {
            hashes.insert(out.log.0);
        }
        if sum.samples.len() < 2 && out.nontrivial {
            sum.samples.push(serde_json::json!({"index": index, "run_seed": rs, "log_hash": format!("{:016x}", out.log.0), "case": case}));
        }
        if let Some(v) = out.violation {
            let key = format!("{} {}", v.class, v.signature);
            let n = minimised.entry(key).or_insert(0);
            *n += 1;
            if *n > 2 {
                sum.counters.inc(&format!("violation-not-minimised.{}", v.class));
                sum.violations.push(ViolationRecord { index, run_seed: rs, class: v.class, signature: v.signature, detail: v.detail, replay: String::new() });
                continue;
            }
            let small = c05::minimise(&case, &v.class, &v.signature);
            let v2 = c05::execute(&small).violation.unwrap_or(v.clone());
            let path = format!("{}/C05-{}-{}.json", args.replay_dir, args.seed, index);
            let rep = C05Replay {
                property: "C05".into(), engine: "lift-sim".into(), batch_seed: args.seed, index, run_seed: rs,
                class: v2.class.clone(), signature: v2.signature.clone(), detail: v2.detail.clone(),
                original_bytes: case.bytes.len() / 2, case: small,
            };
            let _ = std::fs::create_dir_all(&args.replay_dir);
            std::fs::write(&path, serde_json::to_string_pretty(&rep).unwrap()).expect("write replay");
            sum.violations.push(ViolationRecord { index, run_seed: rs, class: v2.class, signature: v2.signature, detail: v2.detail, replay: path });
        }
    }
    sum.states = states.into_iter().collect();
    sum.log_hash = log.0;
    write_hashes(args, &hashes);
    println!("SUMMARY {}", serde_json::to_string(&sum).unwrap());
}

#[derive(serde::Serialize, serde::Deserialize)]
struct C06Replay {
    property: String,
    engine: String,
    batch_seed: u64,
    index: u64,
    run_seed: u64,
    class: String,
    signature: String,
    detail: String,
    original_slots: usize,
    case: c06::Case,
}

fn c06_main(args: &Args) {
    if let Some(path) = &args.replay {
        let text = std::fs::read_to_string(path).unwrap_or_else(|e| {
            eprintln!("cannot read replay {}: {}", path, e);
            std::process::exit(2)
        });
        let r: C06Replay = serde_json::from_str(&text).unwrap_or_else(|e| {
            eprintln!("bad replay file {}: {}", path, e);
            std::process::exit(2)
        });
        let out = c06::execute(&r.case);
        match out.violation {
            Some(v) if v.class == r.class => {
                println!("REPRODUCED property=C06 class={} signature={} detail={}", v.class, v.signature, v.detail);
                std::process::exit(1);
            }
            Some(v) => {
                println!("DIFFERENT property=C06 expected-class={} got-class={} detail={}", r.class, v.class, v.detail);
                std::process::exit(3);
            }
            None => {
                println!("NOT-REPRODUCED property=C06 expected-class={}", r.class);
                std::process::exit(3);
            }
        }
    }
    if let Some(i) = args.dump {
        let s = c06::generate(run_seed(args.seed, "C06", i), i);
        println!("{}", serde_json::to_string_pretty(&s).unwrap());
        return;
    }
    let mut progress = Progress::open(&args.progress);
    let mut sum = WorkerSummary { prop: "C06".into(), ..Default::default() };
    let mut states: BTreeSet<String> = BTreeSet::new();
    let mut minimised: BTreeMap<String, u32> = BTreeMap::new();
    let mut log = LogHash::new();
    let mut hashes: BTreeSet<u64> = BTreeSet::new();
    for index in args.from..args.to {
        progress.at(index);
        let rs = run_seed(args.seed, "C06", index);
        let case = c06::generate(rs, index);
        let out = c06::execute(&case);
        sum.runs += 1;
        sum.ticks += out.ticks;
        sum.counters.merge(&out.counters);
        states.extend(out.states.iter().cloned());
        log.u64(out.log.0);
        if out.nontrivial {
            hashes.insert(out.log.0);
        }
        if sum.samples.len() < 1 && out.nontrivial && case.slots.len() <= 8 {
            sum.samples.push(serde_json::json!({"index": index, "run_seed": rs, "log_hash": format!("{:016x}", out.log.0), "case": case}));
        }
        if let Some(v) = out.violation {
            let key = format!("{} {}", v.class, v.signature);
            let n = minimised.entry(key).or_insert(0);
            *n += 1;
            if *n > 2 {
                sum.counters.inc(&format!("violation-not-minimised.{}", v.class));
                sum.violations.push(ViolationRecord { index, run_seed: rs, class: v.class, signature: v.signature, detail: v.detail, replay: String::new() });
                continue;
            }
            let small = c06::minimise(&case, &v.class);
            let v2 = c06::execute(&small).violation.unwrap_or(v.clone());
            let path = format!("{}/C06-{}-{}.json", args.replay_dir, args.seed, index);
            let rep = C06Replay {
                property: "C06".into(), engine: "lift-sim".into(), batch_seed: args.seed, index, run_seed: rs,
                class: v2.class.clone(), signature: v2.signature.clone(), detail: v2.detail.clone(),
                original_slots: case.slots.len(), case: small,
            };
            let _ = std::fs::create_dir_all(&args.replay_dir);
            std::fs::write(&path, serde_json::to_string_pretty(&rep).unwrap()).expect("write replay");
            sum.violations.push(ViolationRecord { index, run_seed: rs, class: v2.class, signature: v2.signature, detail: v2.detail, replay: path });
        }
    }
    sum.states = states.into_iter().collect();
    sum.log_hash = log.0;
    write_hashes(args, &hashes);
    println!("SUMMARY {}", serde_json::to_string(&sum).unwrap());
}
