//! cow-sim, miri target (thorough tier, C08): real `std::thread`s share
//! copy-on-write pages through `Arc` (feature thread_safe); miri's seeded
//! scheduler (-Zmiri-many-seeds, -Zmiri-preemption-rate) interleaves them and
//! reports data races / undefined behaviour. Memory only: miri cannot cross
//! the capstone FFI. Each thread checks its own clone against its own byte
//! model. argv[1] = script seed.
use falcon::architecture::Endian;
use falcon::il;
use falcon::memory::backing;
use falcon::memory::paged::Memory;
use falcon::memory::MemoryPermissions;
use falcon::RC;
use simcommon::bytemodel::ByteModel;
use simcommon::rng::Rng;
use simcommon::val::Val;

fn main() {
    let seed: u64 = std::env::args().nth(1).and_then(|s| s.parse().ok()).unwrap_or(1);
    falcon::verif::set_point_hook(Some(|_| std::thread::yield_now()));
    let mut rng = Rng::new(seed);
    let big = rng.chance(1, 2);
    let endian = if big { Endian::Big } else { Endian::Little };
    let zone = 0x3f0u64;
    let mut shadow = ByteModel::new(big);
    let mut b = backing::Memory::new(endian.clone());
    let data: Vec<u8> = (0..16).map(|i| i as u8 ^ 0x5a).collect();
    b.set_memory(zone + 4, data.clone(), MemoryPermissions::READ);
    shadow.add_backing_region(zone + 4, &data, 1);
    let mut root: Memory<il::Constant> = Memory::new_with_backing(endian, RC::new(b));
    for k in 0..3u64 {
        let v = Val::from_u64(rng.next(), 32);
        root.store(zone + 6 * k, v.to_constant()).unwrap();
        shadow.store(zone + 6 * k, &v);
    }
    let mut handles = Vec::new();
    for t in 0..3u64 {
        let mut mem = root.clone();
        let mut sh = shadow.clone();
        let mut r = Rng::new(seed ^ (t + 1) * 0x9e37);
        handles.push(std::thread::spawn(move || {
            for _ in 0..6 {
                let bits = *r.pick(&[8usize, 16, 32, 64]);
                let addr = zone + r.below(32 - bits as u64 / 8);
                if r.chance(2, 3) {
                    let v = Val::from_u64(r.next(), bits);
                    mem.store(addr, v.to_constant()).unwrap();
                    sh.store(addr, &v);
                } else if r.chance(1, 4) {
                    mem.set_permissions(addr, 8, MemoryPermissions::ALL);
                }
                let got = mem.load(addr, bits).unwrap().map(|c| Val::from_constant(&c));
                assert_eq!(got, sh.load(addr, bits), "thread {} load(0x{:x},{})", t, addr, bits);
            }
            let snapshot = mem.clone();
            for a in zone..zone + 32 {
                let got = snapshot.load(a, 8).unwrap().map(|c| Val::from_constant(&c));
                assert_eq!(got, sh.byte(a).map(|b| Val::from_u64(b as u64, 8)), "thread {} byte 0x{:x}", t, a);
            }
        }));
    }
    drop(root);
    for h in handles {
        h.join().unwrap();
    }
    println!("cowmiri seed {} ok", seed);
}
