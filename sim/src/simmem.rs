//! SimMemory: the simulator's own `TranslationMemory` (the stream seam the
//! lifters read code through). Serves a byte image with permissions and
//! injects the seam faults of DESIGN §6.3; records every read for the reach
//! probes.

use falcon::memory::MemoryPermissions;
use falcon::translator::TranslationMemory;
use serde::{Deserialize, Serialize};
use std::cell::RefCell;
use std::collections::BTreeMap;

#[derive(Clone, Debug, Default, Serialize, Deserialize, PartialEq, Eq)]
pub struct SeamFaults {
    /// corrupting: from the n-th get_bytes call on, bytes at these addresses read differently
    pub unstable_from_call: Option<usize>,
    pub unstable_xor: Vec<(u64, u8)>,
    /// corrupting: get_bytes returns at most this many bytes on every k-th call
    pub short_read_every: Option<usize>,
    pub short_read_max: usize,
    /// benign: SimMemory overrides get_bytes with an equivalent implementation
    pub own_get_bytes: bool,
}

pub struct SimMemory {
    pub bytes: BTreeMap<u64, u8>,
    /// (start, len, perms)
    pub regions: Vec<(u64, u64, u32)>,
    pub faults: SeamFaults,
    pub calls: RefCell<Vec<(u64, usize, usize)>>,
    pub unstable_fired: RefCell<u64>,
    pub short_fired: RefCell<u64>,
}

impl SimMemory {
    pub fn new(faults: SeamFaults) -> SimMemory {
        SimMemory {
            bytes: BTreeMap::new(),
            regions: Vec::new(),
            faults,
            calls: RefCell::new(Vec::new()),
            unstable_fired: RefCell::new(0),
            short_fired: RefCell::new(0),
        }
    }
    pub fn map(&mut self, address: u64, data: &[u8], perms: u32) {
        for (i, b) in data.iter().enumerate() {
            self.bytes.insert(address + i as u64, *b);
        }
        self.regions.push((address, data.len() as u64, perms));
    }
    fn byte_now(&self, address: u64) -> Option<u8> {
        let b = *self.bytes.get(&address)?;
        if let Some(from) = self.faults.unstable_from_call {
            if self.calls.borrow().len() >= from {
                for (a, x) in &self.faults.unstable_xor {
                    if *a == address {
                        *self.unstable_fired.borrow_mut() += 1;
                        return Some(b ^ x);
                    }
                }
            }
        }
        Some(b)
    }
}

impl TranslationMemory for SimMemory {
    fn permissions(&self, address: u64) -> Option<MemoryPermissions> {
        for &(s, l, p) in self.regions.iter().rev() {
            if address >= s && address - s < l {
                return Some(MemoryPermissions::from_bits_truncate(p));
            }
        }
        None
    }

    fn get_u8(&self, address: u64) -> Option<u8> {
        self.byte_now(address)
    }

    fn get_bytes(&self, address: u64, length: usize) -> Vec<u8> {
        let ncall = self.calls.borrow().len() + 1;
        let mut want = length;
        if let Some(k) = self.faults.short_read_every {
            if k > 0 && ncall % k == 0 && self.faults.short_read_max < want {
                want = self.faults.short_read_max;
                *self.short_fired.borrow_mut() += 1;
            }
        }
        let mut out = Vec::new();
        // same contract as the trait's default: stop at the first unmapped byte; the
        // start address must be executable
        let exec = self
            .permissions(address)
            .map(|p| p.contains(MemoryPermissions::EXECUTE))
            .unwrap_or(false);
        if exec {
            for i in 0..want {
                match self.byte_now(address + i as u64) {
                    Some(b) => out.push(b),
                    None => break,
                }
            }
        }
        self.calls.borrow_mut().push((address, length, out.len()));
        out
    }
}

/// Same image, but `get_bytes` is the trait's default implementation.
pub struct SimMemoryDefault(pub SimMemory);

impl TranslationMemory for SimMemoryDefault {
    fn permissions(&self, address: u64) -> Option<MemoryPermissions> {
        self.0.permissions(address)
    }
    fn get_u8(&self, address: u64) -> Option<u8> {
        self.0.get_u8(address)
    }
}
