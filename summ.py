import sys,json
from collections import Counter
for l in sys.stdin:
    if l.startswith('SUMMARY '):
        s=json.loads(l[8:])
        print('runs',s['runs'],'ticks',s['ticks'],'states',len(s['states']))
        c=Counter((v['class'],v['signature']) for v in s['violations'])
        for k,n in c.most_common(40): print(n,k)
        for v in [v for v in s['violations'] if v['replay']][:int(sys.argv[1]) if len(sys.argv)>1 else 6]: print(v['class'],'|',v['detail'][:400],'|',v['replay'])
        if len(sys.argv)>2:
            for k,v in s['counters'].items(): print('  ',k,v)
    elif not l.startswith('SUMMARY'): print(l.rstrip()[:300])
