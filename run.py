#!/usr/bin/env python3
"""Orchestrator for the falcon deterministic-simulation checks (python3 stdlib only).

  run.py build                         build all simulator binaries from /repo's working tree
  run.py check <PROP> [--tier T]       run the check for one property (C05..C08)
  run.py replay <file>                 re-execute a replay file in a fresh process
  run.py selfcheck [--runs N]          determinism self-check of every engine

Exit codes: 0 property held on everything explored, 1 violation (after it was
reproduced from its replay file in a fresh process), 2 harness error.
Environment: VERIF_SEED (default 1), VERIF_TIER (quick|thorough), VERIF_WORKERS.
"""
import argparse
import json
import os
import signal
import subprocess
import sys
import tempfile
import time

VERIF = os.path.dirname(os.path.abspath(__file__))
SIM = os.path.join(VERIF, "sim")
BIN = os.path.join(SIM, "target", "release")
# the same simulators built against falcon's default configuration (RC = Rc, no thread_safe)
RC_TARGET = os.path.join(SIM, "target-rc")
BIN_RC = os.path.join(RC_TARGET, "release")
REPLAYS = os.path.join(VERIF, "replays")
EVIDENCE = os.path.join(VERIF, "evidence")
KNOWN = os.path.join(VERIF, "known_findings.json")

ENGINE = {"C08": "cowsim", "C07": "cowsim", "C05": "liftsim", "C06": "liftsim"}

# run budgets (runs, not seconds: the same seed explores the same runs on any machine)
BUDGET = {
    ("C08", "quick"): 1_000_000,
    ("C08", "thorough"): 24_000_000,
    ("C07", "quick"): 600_000,
    ("C07", "thorough"): 6_000_000,
    ("C05", "quick"): 4_000_000,
    ("C05", "thorough"): 120_000_000,
    ("C06", "quick"): 320_000,
    ("C06", "thorough"): 8_000_000,
}

# glibc malloc tuning: falcon allocates/frees ~40 KB pages constantly; with default
# trimming 16 worker processes spend their time in page faults (8x slowdown measured)
# thorough tier, thread-placement engine: scripts x (random + PCT) x iterations each
SHUTTLE_SCRIPTS = {"C08": 8000, "C07": 8000}
SHUTTLE_ITERS = 50
# a single run normally takes well under 10 ms; one that has not finished after this many
# seconds in isolation is reported as not terminating
CONFIRM_S = 30

ENV = dict(os.environ, CARGO_NET_OFFLINE="true", RUST_BACKTRACE="0",
           MALLOC_TRIM_THRESHOLD_="2000000000", MALLOC_MMAP_THRESHOLD_="2000000000",
           MALLOC_TOP_PAD_="268435456")


def log(msg):
    print(msg, flush=True)


def die(msg, code=2):
    print("HARNESS-ERROR: " + msg, flush=True)
    sys.exit(code)


def build(extra_args=(), target_dir=None, quiet=False, bins=None):
    cmd = ["cargo", "build", "--release", "--offline"] + (sum([["--bin", b] for b in bins], []) if bins else ["--bins"]) + list(extra_args)
    env = dict(ENV)
    if target_dir:
        env["CARGO_TARGET_DIR"] = target_dir
    t0 = time.time()
    p = subprocess.run(cmd, cwd=SIM, env=env, stdout=subprocess.PIPE, stderr=subprocess.STDOUT, text=True)
    if p.returncode != 0:
        sys.stdout.write(p.stdout[-6000:])
        die("building the simulators against /repo's working tree failed (cargo exit %d)" % p.returncode)
    if not quiet:
        log("build ok in %.1fs%s" % (time.time() - t0, " (%s)" % " ".join(extra_args) if extra_args else ""))


def load_known():
    if not os.path.exists(KNOWN):
        return []
    with open(KNOWN) as f:
        return json.load(f).get("findings", [])


def match_known(known, prop, cls, signature):
    for k in known:
        if k.get("status") != "known" or k.get("property") != prop:
            continue
        if k.get("class") != cls:
            continue
        want = k.get("signature_contains", [])
        if all(w in signature for w in want):
            return k
    return None


class Worker:
    def __init__(self, wid, prop, seed, tier, lo, hi, tmp, bindir, extra, engine=None):
        self.wid, self.lo, self.hi = wid, lo, hi
        self.progress = os.path.join(tmp, "progress-%d" % wid)
        self.out = os.path.join(tmp, "out-%d" % wid)
        self.hashes = os.path.join(tmp, "hashes-%d" % wid)
        cmd = [os.path.join(bindir, engine or ENGINE[prop]), "--prop", prop, "--tier", tier, "--seed", str(seed),
               "--from", str(lo), "--to", str(hi), "--replay-dir", REPLAYS, "--progress", self.progress,
               "--hashes", self.hashes] + extra
        self.cmd = cmd
        self.fout = open(self.out, "w")
        self.proc = subprocess.Popen(cmd, stdout=self.fout, stderr=subprocess.STDOUT, env=ENV)
        self.last_progress = None
        self.last_change = time.time()

    def progress_index(self):
        try:
            with open(self.progress) as f:
                return int(f.read().split()[0])
        except Exception:
            return None


def cpu_seconds(pid):
    """user+system CPU time of a process so far (None when it is gone)"""
    try:
        with open("/proc/%d/stat" % pid) as f:
            fields = f.read().rsplit(")", 1)[1].split()
        return (int(fields[11]) + int(fields[12])) / os.sysconf("SC_CLK_TCK")
    except Exception:
        return None


def stalled(w, stall_s):
    """A worker hangs when one run index has consumed stall_s CPU-seconds without finishing
    (wall-clock alone misjudges a busy machine: a 7 s run once exceeded 120 s of wall-clock
    while other builds were running), or made no progress for 15 x stall_s of wall-clock
    (a worker that is blocked rather than spinning)."""
    wall = time.time() - w.last_change
    if wall <= stall_s:
        return False
    if wall > 15 * stall_s:
        return True
    now, then = cpu_seconds(w.proc.pid), getattr(w, "cpu_at_change", None)
    if now is None:
        return False
    return now - (then or 0.0) > stall_s


def run_workers(prop, seed, tier, total, nworkers, bindir, extra, stall_s, engine=None):
    """Run `total` run indices over `nworkers` processes; returns (summaries, crashes)."""
    tmp = tempfile.mkdtemp(prefix="falcon-sim-", dir=os.path.join(VERIF, "work"))
    per = (total + nworkers - 1) // nworkers
    workers = []
    for w in range(nworkers):
        lo, hi = w * per, min(total, (w + 1) * per)
        if lo >= hi:
            break
        workers.append(Worker(w, prop, seed, tier, lo, hi, tmp, bindir, extra, engine))
    crashes = []
    pending = list(workers)
    while pending:
        time.sleep(0.2)
        for w in list(pending):
            rc = w.proc.poll()
            idx = w.progress_index()
            if idx != w.last_progress:
                w.last_progress, w.last_change, w.cpu_at_change = idx, time.time(), cpu_seconds(w.proc.pid)
            if rc is not None:
                pending.remove(w)
                w.fout.close()
                if rc != 0:
                    crashes.append({"worker": w.wid, "kind": "abort", "rc": rc, "index": idx, "lo": w.lo, "hi": w.hi})
            elif stalled(w, stall_s):
                w.proc.kill()
                w.proc.wait()
                pending.remove(w)
                w.fout.close()
                crashes.append({"worker": w.wid, "kind": "hang", "rc": None, "index": idx, "lo": w.lo, "hi": w.hi})
    summaries = []
    for w in workers:
        try:
            with open(w.out) as f:
                for line in f:
                    if line.startswith("SUMMARY "):
                        summaries.append(json.loads(line[8:]))
                        summaries[-1]["_lo"] = w.lo
        except Exception as e:
            die("cannot read worker output: %s" % e)
    hashes = HashSummary([w.hashes for w in workers if os.path.exists(w.hashes)])
    ok_workers = len(workers) - len(crashes)
    if len(summaries) != ok_workers:
        die("%d workers finished but %d summaries were read (worker output: %s)" % (ok_workers, len(summaries), tmp))
    # keep the temp dir only when something went wrong
    if not crashes:
        subprocess.run(["rm", "-rf", tmp])
    return summaries, crashes, hashes, tmp


class HashSummary:
    """Distinct event-log hashes of a batch: the workers' sorted hex files are merged with
    `sort -m -u`; only the count and a digest of the merged stream are kept."""

    def __init__(self, files):
        self.count, self.digest = 0, ""
        if not files:
            return
        import hashlib
        env = dict(os.environ, LC_ALL="C")
        p = subprocess.Popen(["sort", "-m", "-u"] + files, stdout=subprocess.PIPE, env=env)
        h = hashlib.sha256()
        n = 0
        while True:
            chunk = p.stdout.read(1 << 20)
            if not chunk:
                break
            n += chunk.count(b"\n")
            h.update(chunk)
        p.wait()
        self.count, self.digest = n, h.hexdigest()

    def __len__(self):
        return self.count


def confirm_crash(prop, seed, tier, crash, bindir, extra, stall_s, engine=None):
    """Re-run the single run index that killed a worker, in isolation."""
    idx = crash["index"]
    if idx is None:
        return None
    cmd = [os.path.join(bindir, engine or ENGINE[prop]), "--prop", prop, "--tier", tier, "--seed", str(seed),
           "--from", str(idx), "--to", str(idx + 1), "--replay-dir", REPLAYS] + extra
    try:
        p = subprocess.run(cmd, stdout=subprocess.PIPE, stderr=subprocess.STDOUT, env=ENV, timeout=stall_s, text=True)
        if p.returncode == 0:
            return None
        return {"kind": "abort", "rc": p.returncode, "tail": p.stdout[-400:]}
    except subprocess.TimeoutExpired:
        return {"kind": "hang", "rc": None, "tail": ""}


def replay_file(path, timeout=600):
    """Re-execute a replay file in a fresh process. Returns (reproduced, output)."""
    with open(path) as f:
        rep = json.load(f)
    prop = rep["property"]
    bindir = BIN
    if rep.get("config") == "rc":
        bindir = BIN_RC
        if not os.path.exists(os.path.join(BIN_RC, ENGINE[prop])):
            build(["--no-default-features"], target_dir=RC_TARGET, bins=["cowsim", "liftsim"], quiet=True)
    if rep.get("engine") == "crash":
        cmd = [os.path.join(bindir, rep.get("binary") or ENGINE[prop]), "--prop", prop, "--tier", rep["tier"], "--seed", str(rep["batch_seed"]),
               "--from", str(rep["index"]), "--to", str(rep["index"] + 1), "--replay-dir", tempfile.gettempdir()] + rep.get("extra", [])
        try:
            p = subprocess.run(cmd, stdout=subprocess.PIPE, stderr=subprocess.STDOUT, env=ENV, timeout=rep.get("stall_s", 60), text=True)
            if p.returncode not in (0, 1):
                return True, "worker died with status %d on run index %d" % (p.returncode, rep["index"])
            return False, "run index %d completed (exit %d)" % (rep["index"], p.returncode)
        except subprocess.TimeoutExpired:
            return True, "run index %d did not terminate within %ss" % (rep["index"], rep.get("stall_s", 60))
    if rep.get("engine") == "range":
        # the violation needs the runs before it in the same process: re-run the slice
        tmpd = tempfile.mkdtemp(prefix="range-replay-", dir=os.path.join(VERIF, "work"))
        cmd = [os.path.join(bindir, ENGINE[prop]), "--prop", prop, "--tier", rep["tier"], "--seed", str(rep["batch_seed"]),
               "--from", str(rep["from"]), "--to", str(rep["index"] + 1), "--replay-dir", tmpd]
        try:
            p = subprocess.run(cmd, stdout=subprocess.PIPE, stderr=subprocess.DEVNULL, env=ENV, timeout=timeout, text=True)
        except subprocess.TimeoutExpired:
            subprocess.run(["rm", "-rf", tmpd])
            return False, "range replay did not terminate"
        subprocess.run(["rm", "-rf", tmpd])
        for line in p.stdout.splitlines():
            if line.startswith("SUMMARY "):
                for v in json.loads(line[8:])["violations"]:
                    if v["index"] == rep["index"] and v["class"] == rep["class"]:
                        return True, "REPRODUCED property=%s class=%s at run index %d after runs %d..%d in the same process: %s" % (
                            prop, v["class"], rep["index"], rep["from"], rep["index"] - 1, v["detail"][:300])
        return False, "run index %d shows no %s after runs %d.. in a fresh process" % (rep["index"], rep["class"], rep["from"])
    binary = "cowshuttle" if rep.get("engine") == "shuttle" else ENGINE[prop]
    cmd = [os.path.join(bindir, binary), "--prop", prop, "--replay", path] + rep.get("extra", [])
    try:
        p = subprocess.run(cmd, stdout=subprocess.PIPE, stderr=subprocess.STDOUT, env=ENV, timeout=timeout, text=True)
    except subprocess.TimeoutExpired:
        return (rep.get("class") == "hang"), "replay did not terminate"
    out = p.stdout.strip()
    if p.returncode == 1 and "REPRODUCED" in out:
        return True, out
    if p.returncode not in (0, 1, 3) and rep.get("class") in ("abort", "panic"):
        return True, "process died with status %d" % p.returncode
    return False, out


def merge_counters(summaries):
    c = {}
    for s in summaries:
        for k, v in s["counters"].items():
            c[k] = c.get(k, 0) + v
    return dict(sorted(c.items()))


def components(prop):
    real = {
        "C08": ["memory::paged::Memory<il::Constant> and <il::Expression> (store/load/clone/eq/permissions/set_permissions, RC copy-on-write pages)",
                "memory::backing::Memory (shared immutable bottom layer)", "memory::value::Value impls", "il::Constant / il::Expression arithmetic used by paged memory"],
        "C07": ["executor::Driver::step, executor::State, executor::eval", "il::Program / Function / ControlFlowGraph / ProgramLocation", "memory::paged::Memory<il::Constant> over memory::backing::Memory",
                "the real translators (capstone / bad64) for on-demand lifting at indirect branch targets"],
        "C05": ["the seven translators' translate_block and translate_function_extended incl. capstone and bad64 (FFI)", "il expression/operation constructors", "ControlFlowGraph"],
        "C06": ["Translator::translate_function_extended + translate_block of all seven translators (capstone / bad64 FFI)", "il::ControlFlowGraph insert/merge", "memory::backing::Memory and executor::Memory as TranslationMemory"],
    }[prop]
    stub = {
        "C08": ["the environment only: party pool, scheduler, shadows (BTreeMap byte model)"],
        "C07": ["the environment only: party pool, scheduler, reference IL interpreter; generated IL programs instead of a loaded binary"],
        "C05": ["SimMemory (simulator's TranslationMemory serving generated/corrupted images)"],
        "C06": ["SimMemory (simulator's TranslationMemory: EOF, holes, layered, window cap via hook H2); reference run = harness interpreter over per-instruction translate_block results"],
    }[prop]
    return real, stub


def check(prop, tier, seed, nworkers, scale):
    t0 = time.time()
    os.makedirs(REPLAYS, exist_ok=True)
    os.makedirs(EVIDENCE, exist_ok=True)
    os.makedirs(os.path.join(VERIF, "work"), exist_ok=True)
    log("VERIF_SEED=%d property=%s tier=%s workers=%d" % (seed, prop, tier, nworkers))
    build()
    total = max(nworkers, int(BUDGET[(prop, tier)] * scale))
    stall_s = 120
    known = load_known()
    summaries, crashes, hashes, tmp = run_workers(prop, seed, tier, total, nworkers, BIN, [], stall_s)
    for c in crashes:
        c["engine"], c["extra"] = ENGINE[prop], []
    shuttle_scripts = 0
    if tier == "thorough" and prop in SHUTTLE_SCRIPTS:
        # thread-placement engine: owners on shuttle threads, shuttle's seeded random and PCT
        # schedulers interleave them at operation boundaries and at the H1 points
        shuttle_scripts = max(nworkers, int(SHUTTLE_SCRIPTS[prop] * scale))
        extra = ["--iters", str(SHUTTLE_ITERS)]
        s2, c2, _, tmp2 = run_workers(prop, seed, tier, shuttle_scripts, nworkers, BIN, extra, 600, engine="cowshuttle")
        for c in c2:
            c["engine"], c["extra"] = "cowshuttle", extra
        summaries += s2
        crashes += c2

    rc_runs = 0
    if tier == "thorough":
        # falcon's default configuration: RC = Rc instead of Arc (lib.rs). The quick budget is
        # run again with the simulators built without the thread_safe feature.
        build(["--no-default-features"], target_dir=RC_TARGET, bins=["cowsim", "liftsim"])
        rc_runs = max(nworkers, int(BUDGET[(prop, "quick")] * scale))
        s4, c4, _, tmp4 = run_workers(prop, seed, tier, rc_runs, nworkers, BIN_RC, [], stall_s)
        for c in c4:
            c["engine"], c["extra"], c["bindir"] = ENGINE[prop], [], BIN_RC
        for s_ in s4:
            for v in s_["violations"]:
                v["_config"] = "rc"
                if v["replay"]:
                    # the replay file has to name the configuration it fails in
                    try:
                        with open(v["replay"]) as f:
                            rep_ = json.load(f)
                        rep_["config"] = "rc"
                        with open(v["replay"], "w") as f:
                            json.dump(rep_, f, indent=1)
                    except Exception as e:
                        die("cannot tag replay file %s: %s" % (v["replay"], e))
        summaries += s4
        crashes += c4

    determinism = None
    if tier == "thorough":
        # determinism self-check on a sample: the same 600 run indices executed twice, in
        # separate processes and with different worker counts, must produce identical event logs
        sigs = []
        for nw in (2, 5):
            s3, c3, h3, _ = run_workers(prop, seed, tier, 600, nw, BIN, [], stall_s)
            sigs.append((len(c3), h3.count, h3.digest, json.dumps(merge_counters(s3), sort_keys=True)))
        determinism = sigs[0] == sigs[1]
        if not determinism:
            die("determinism self-check failed: the same seeds produced different event logs in two executions")

    violations = []  # (class, signature, detail, replay)
    confirmed_crashes = 0
    for c in crashes:
        if confirmed_crashes >= 2:
            # enough: every further dead worker is only counted (each confirmation of a hang
            # costs a full watchdog period)
            log("note: worker %d also died (%s) at run index %s; not confirmed individually" % (c["worker"], c["kind"], c["index"]))
            continue
        conf = confirm_crash(prop, seed, tier, c, c.get("bindir", BIN), c["extra"], CONFIRM_S, engine=c["engine"])
        confirmed_crashes += 1
        if conf is None:
            die("worker %d %s at run index %s but the run does not %s in isolation (worker output kept in %s)"
                % (c["worker"], c["kind"], c["index"], c["kind"], tmp))
        path = os.path.join(REPLAYS, "%s-%d-%d-crash.json" % (prop, seed, c["index"]))
        with open(path, "w") as f:
            json.dump({"property": prop, "engine": "crash", "binary": c["engine"], "extra": c["extra"], "class": conf["kind"],
                       "config": "rc" if c.get("bindir") == BIN_RC else "arc",
                       "batch_seed": seed, "tier": tier, "index": c["index"], "stall_s": CONFIRM_S, "detail": conf}, f, indent=1)
        violations.append({"class": conf["kind"], "signature": "process %s (status %s)" % (conf["kind"], conf["rc"]),
                           "detail": conf["tail"], "replay": path, "index": c["index"], "confirmed_in_fresh_process": True})
        # the rest of the dead worker's slice was not explored: say so
        log("note: worker %d died at run index %d; indices %d..%d of its slice were not explored" % (c["worker"], c["index"], c["index"] + 1, c["hi"]))
    unminimised = 0
    for s in summaries:
        for v in s["violations"]:
            if v["replay"]:
                v["_lo"] = s.get("_lo")
                violations.append(v)
            else:
                unminimised += 1

    exit_code = 0
    reported = set()
    known_hits = {}
    new_violations = 0
    replayed_known = {}
    range_replays = 0
    history_dependent = False
    history_unreplayed = 0
    for v in violations:
        k = match_known(known, prop, v["class"], v["signature"])
        if k is not None and replayed_known.get(k["id"], 0) >= 3:
            # a listed finding: the first three hits were reproduced from their replay files
            known_hits[k["id"]][1] += 1
            continue
        if k is not None:
            replayed_known[k["id"]] = replayed_known.get(k["id"], 0) + 1
        if v.get("confirmed_in_fresh_process"):
            ok, out = True, "confirmed by re-running the single run index in a fresh process"
        else:
            ok, out = replay_file(v["replay"])
        if not ok and history_dependent and range_replays >= 2:
            # history dependence is already established and reported with two replayable
            # slices; further runs that only fail in their batch are counted
            history_unreplayed += 1
            continue
        if not ok and v.get("_lo") is not None and range_replays < 2:
            # The minimised single run does not fail alone. Either the harness is not
            # deterministic (a harness error) or the library carries state from one call to
            # the next, so that this run's outcome depends on the runs before it in the same
            # process. Decide by re-running the worker's slice up to this run in a fresh
            # process: if the violation is back at the same index, the second holds, and
            # that history dependence is reported with the slice as its replay.
            range_replays += 1
            rpath = os.path.join(REPLAYS, "%s-%d-%d-range.json" % (prop, seed, v["index"]))
            with open(rpath, "w") as f:
                json.dump({"property": prop, "engine": "range", "config": v.get("_config", "arc"), "tier": tier, "batch_seed": seed, "from": v["_lo"], "index": v["index"],
                           "class": v["class"], "signature": v["signature"], "detail": v["detail"],
                           "note": "the minimised run alone does not fail in a fresh process (%s); runs from..index of the batch do" % os.path.basename(v["replay"])},
                          f, indent=1)
            ok, out = replay_file(rpath, timeout=3600)
            if ok:
                history_dependent = True
                v = dict(v, replay=rpath, signature=v["signature"] + " history-dependent",
                         detail="only after the preceding runs of the same process (state carried across calls): " + v["detail"])
        if not ok:
            die("violation %s (%s) from run index %s did not reproduce from %s in a fresh process: %s"
                % (v["class"], v["signature"], v.get("index"), v["replay"], out[:300]))
        if k is not None:
            known_hits.setdefault(k["id"], [k, 0])[1] += 1
            continue
        key = (v["class"], v["signature"])
        new_violations += 1
        if key in reported:
            continue
        reported.add(key)
        log("VIOLATION property=%s replay=%s" % (prop, v["replay"]))
        log("  class=%s signature=[%s]" % (v["class"], v["signature"]))
        log("  %s" % v["detail"][:600])
        exit_code = 1
    if history_unreplayed:
        log("note: %d further violations fail only after the preceding runs of their batch (not replayed one by one)" % history_unreplayed)
    for kid, (k, n) in sorted(known_hits.items()):
        log("KNOWN-FINDING: property=%s %s (%s; seen in %d runs)" % (prop, k["what"], kid, n))

    wall = time.time() - t0
    runs = sum(s["runs"] for s in summaries)
    ticks = sum(s["ticks"] for s in summaries)
    counters = merge_counters(summaries)
    states = set()
    samples = []
    for s in summaries:
        states.update(s["states"])
        if len(samples) < 3:
            samples.extend(s["samples"][: 3 - len(samples)])
    faults = {k: v for k, v in counters.items() if k.startswith("fault.")}
    zero_probes = [k for k, v in counters.items() if v == 0]
    real, stub = components(prop)
    sim_wall = max(wall, 1e-6)
    ev = {
        "property_id": prop,
        "tier": tier,
        "seed": seed,
        "level": LEVEL[prop],
        "coverage": {
            "evaluations": runs,
            "distinct_nontrivial": len(hashes),
            "rule": RULES[prop],
            "samples": samples if samples else [{"note": "no short script among the first runs of each worker"}],
            "simulated_runs": runs,
            "runs_per_hour": int(runs / sim_wall * 3600),
            "simulated_time_ticks": ticks,
            "ticks_per_hour": int(ticks / sim_wall * 3600),
            "simulated_time_note": "falcon reads no clock; simulated time is the number of scheduler ticks (actions / steps executed)",
            "batch_seed": seed,
            "run_seed_derivation": "run_seed(i) = splitmix64-mix(VERIF_SEED, property id, i); run i uses xoshiro256** seeded with it",
            "run_indices": [0, total],
            "faults_fired": faults,
            "reach_probes": {k: v for k, v in counters.items() if not k.startswith("fault.")},
            "probes_at_zero": zero_probes,
            "distinct_abstract_states": len(states),
            "abstract_state_definition": STATE_DEF[prop],
            "components_real": real,
            "components_stub": stub,
            "workers": nworkers,
            "determinism_selfcheck": ("identical event logs for 600 run indices executed twice with 2 and 5 workers" if determinism else "quick tier: not run (see `run.py selfcheck`)"),
            "shuttle_scripts": shuttle_scripts,
            "runs_in_default_rc_configuration": rc_runs,
            "shuttle_schedules_explored": counters.get("shuttle.iterations-random", 0) + counters.get("shuttle.iterations-pct", 0),
            "worker_crashes": len(crashes),
            "violations_new": new_violations,
            "violations_beyond_minimisation_cap": unminimised,
            "known_findings_seen": {kid: n for kid, (k, n) in known_hits.items()},
        },
        "assumptions": ASSUMPTIONS[prop],
        "wall_s": round(wall, 2),
        "violations": new_violations,
    }
    with open(os.path.join(EVIDENCE, prop + ".json"), "w") as f:
        json.dump(ev, f, indent=1)
    log("%s %s: %d runs, %d ticks, %d distinct non-trivial runs, %d abstract states, %d new violations, %d known-finding hits, %.1fs"
        % (prop, tier, runs, ticks, len(hashes), len(states), new_violations, sum(n for _, n in known_hits.values()), wall))
    return exit_code


LEVEL = {"C05": "fault_enumeration", "C06": "exploration", "C07": "exploration", "C08": "exploration"}

RULES = {
    "C08": "run i: swarm configuration + script of 3-60 actions over 1-8 parties (clones sharing copy-on-write pages) drawn from run_seed(i); every 4th run is fault-free (one party, no fork/drop). Non-trivial = at least one store took effect and at least one load/sweep was compared with the byte model; distinct = distinct 64-bit hash of the run's event log (every action index, kind and observed value).",
    "C07": "run i: generated IL program (1-8 blocks, guarded edges) + initial state + script of step/fork/drop/observe actions over forked Drivers; every 4th run fault-free. Non-trivial = at least 3 Driver steps compared; distinct = distinct event-log hash.",
    "C05": "run i: byte string (valid program with injected corruption, or random) x translator x option fed to translate_block / translate_function_extended through the stream seam; non-trivial = the call returned Ok and at least one IL instruction was checked, or a fault fired; distinct = distinct hash of (translator, option, bytes, outcome).",
    "C06": "run i: generated machine-code program (3-48 slots) x layout x memory implementation x seam faults; non-trivial = the function lifted and at least 3 native instructions were executed and compared; distinct = distinct event-log hash.",
}
STATE_DEF = {
    "C08": "(action kind, width class, page-offset class, strong-count class of the target page | overlap pattern of touched cells, endianness, value type, mid-operation fault that fired) for stores; (width class, offset class, byte source mix, cell path, endianness, value type) for loads",
    "C07": "(operation kind, successor kind, outcome/error kind, sharing class, fork depth)",
    "C05": "(translator, option, input kind, fault kind, outcome class)",
    "C06": "(translator, memory implementation, window cap class, window-end class, overlap class, fault kind, terminator kind)",
}
ASSUMPTIONS = {
    "C08": ["sampling, not enumeration: a clean batch is evidence over the sampled scripts only",
            "address + width never wraps 2^64; widths are positive multiples of 8 up to 256 bits",
            "backing regions are disjoint (C16's overlap logic is outside C08)",
            "addresses on a page touched by set_permissions but outside the requested range are not compared (page granularity is documented API behaviour)",
            "a != b is never judged"],
    "C07": ["sampling, not enumeration", "generated programs use one width per scalar name, guards over one scalar set per block (all guards of a block are stuck or none is)",
            "arithmetic shift amounts <= operand width and sext targets multiple of 8 (C04 territory)", "error variants are not compared, only Err vs Ok"],
    "C05": ["sampling, not enumeration", "edge/successor exclusivity and exhaustiveness are decided on a finite set of scalar valuations (corner values first)"],
    "C06": ["sampling, not enumeration", "reference and system runs use the same lifter per instruction: lifter semantics (C01-C03) are out of scope by construction",
            "programs are built from the instruction forms listed in DESIGN Appendix A"],
}


def main():
    ap = argparse.ArgumentParser()
    sub = ap.add_subparsers(dest="cmd", required=True)
    sub.add_parser("build")
    c = sub.add_parser("check")
    c.add_argument("prop")
    c.add_argument("--tier", default=os.environ.get("VERIF_TIER", "quick"))
    c.add_argument("--scale", type=float, default=float(os.environ.get("VERIF_SCALE", "1")))
    r = sub.add_parser("replay")
    r.add_argument("file")
    s = sub.add_parser("selfcheck")
    s.add_argument("--runs", type=int, default=2000)
    a = ap.parse_args()
    seed = int(os.environ.get("VERIF_SEED", "1"))
    nworkers = int(os.environ.get("VERIF_WORKERS", str(os.cpu_count() or 16)))
    if a.cmd == "build":
        build()
        return 0
    if a.cmd == "check":
        if a.prop not in ENGINE:
            die("unknown property %s" % a.prop)
        if a.tier not in ("quick", "thorough"):
            die("unknown tier %s" % a.tier)
        return check(a.prop, a.tier, seed, nworkers, a.scale)
    if a.cmd == "replay":
        build(quiet=True)
        ok, out = replay_file(a.file)
        log(out)
        if ok:
            with open(a.file) as f:
                prop = json.load(f)["property"]
            log("VIOLATION property=%s replay=%s" % (prop, a.file))
            return 1
        return 0
    if a.cmd == "selfcheck":
        return selfcheck(seed, a.runs)


def selfcheck(seed, runs):
    """Determinism: same seed, same slice -> same combined event-log hash, across worker counts."""
    os.makedirs(os.path.join(VERIF, "work"), exist_ok=True)
    build()
    bad = 0
    for prop in ("C08", "C07", "C05", "C06"):
        if not os.path.exists(os.path.join(BIN, ENGINE[prop])):
            continue
        sigs = []
        for nw in (3, 16, 16):
            summaries, crashes, hashes, _ = run_workers(prop, seed, "quick", runs, nw, BIN, [], 120)
            if crashes:
                die("selfcheck: worker crash for %s" % prop)
            sigs.append(((hashes.count, hashes.digest), json.dumps(merge_counters(summaries), sort_keys=True), sum(s["ticks"] for s in summaries)))
        same = sigs[0] == sigs[1] == sigs[2]
        log("selfcheck %s: %d runs x (3,16,16 workers): %s (%d distinct logs)" % (prop, runs, "identical" if same else "DIFFERENT", sigs[0][0][0]))
        if not same:
            bad += 1
    if bad:
        die("event logs differ between executions of the same seeds")
    return 0


if __name__ == "__main__":
    sys.exit(main())
