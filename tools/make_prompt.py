#!/usr/bin/env python3
"""make_prompt.py <name> <property> <variant> : write /tmp/wt/<name>-prompt.txt for a seeding sub-agent.
The prompt carries only the property text (from properties.jsonl) and the scratch worktree; nothing from /verif."""
import json, sys
name, prop, variant = sys.argv[1:4]
P = {json.loads(l)["id"]: json.loads(l) for l in open("/verif/properties.jsonl")}[prop]
tried = {
 "C05": "off-by-one lane assertions / skipped truncation in A64 vector ops; rep-prefix handling on x86; dropped successor when target equals fall-through; Expression::sext accepting equal widths; RIP-relative overflow near 2^63; call $+5 special case; block-count bound in translate_function; MIPS sltu $zero fast path; A64 cbz on the zero register; merge leaving the entry dangling; MIPS delay-slot key changes; A64 end-of-window test accepting a partial word; x86 register-width check moved out of X86Register::set (lea with 0x67); Graph::remove_vertex leaving an edge of a 2-cycle; chaining edge only for newly inserted instructions; PPC srawi zero-shift carry width; DisassemblyFailure of non-entry blocks swallowed",
 "C06": "work-list/overlapping-block exit bookkeeping; x86 out-of-bytes successor address; merge moving or swallowing the entry; get_bytes fast paths (stale backing, section end, skipped holes); chaining edge skipped for shared instructions; jcxz missing from the terminator list; guarded manual edge parallel to a jump; paged permissions without backing fallback; successors below the function address dropped; intrinsic path skipping length update; block-count cap (u16) in translate_function_extended; BlockTranslationResult::new de-duplicating successors; single-block fast path skipping the edge pass; MIPS blez condition rewritten with a wrapping subtraction; lazily created placeholder blocks for unmapped addresses",
 "C07": "instruction index used as position / binary search over indices; eval short-circuits; mods power-of-two fast path; sext sign fill; on-demand lifting from a stale backing; page copy losing permissions; from_address fallback assuming sorted functions; Load fast path from the backing; branch targets wider than 64 bits truncated; intrinsics with empty read/write lists stepped over; SuccessorType::Intrinsic folded into fall-through; store_no_backref spill loop off by one; store fast path for untouched pages skipping overlap fix-ups; a load cache in State; Constant::shr with amounts that do not fit usize",
 "C08": "Page clone losing permissions; store fast path for a fresh page; reassembly deciding from the first address or assuming two pages; PartialEq variants (subset test, missing backing, endianness); store skipped when a load already returns the value; backing endianness fast path; Backref cells dropped beyond the second page; shl constant folding for expressions; set_permissions page count; store_cell skipping un-sharing; backing set_memory boundary test (< vs <=) losing an adjacent section; page-level permission snapshot taken at first store; Value::trun looking through sext as zext; set_permissions skipping pages that already report the value; store fast path when the cell already holds a value no wider; permissions() treating an existing page as authoritative",
}[prop]
variants = {
 "support": "The change must be made in a SUPPORTING module that the anchored code depends on rather than in the anchored functions themselves (for example the graph library under lib/graph, lib/il/block.rs, lib/il/function.rs, lib/il/constant.rs, lib/il/expression.rs, lib/il/program.rs, lib/il/control_flow_graph.rs helper methods, lib/memory/backing.rs, lib/memory/value.rs, lib/executor/eval.rs, lib/translator/block_translation_result.rs, lib/translator/options.rs, lib/architecture) - a helper whose contract is subtly changed so that only some callers on the property's path are affected.",
 "arch": "The change must be made in the architecture-specific code of ONE of the non-x86 lifters (lib/translator/ppc, lib/translator/aarch64 or lib/translator/mips: semantics helpers, operand decoding, register tables, the block loop) and must only affect particular operand combinations or encodings of otherwise well-tested instructions (for example the zero/stack register number, a shift or rotate amount of 0 or of the full width, a wrapping mask, a negative or maximal displacement, an update-form or pre/post-index addressing mode, a condition code that is rarely used) - not a whole instruction being wrong.",
 "readonly": "The change must make an operation that is supposed to be READ-ONLY or side-effect free (a load, an equality comparison, a permissions query, expression evaluation, a failed step, looking up a location, cloning) modify, cache or share state - or make a modifying operation touch more state than it should - so that the damage only shows in a LATER operation, possibly through another clone/fork of the same object.",
 "errpath": "The change must affect what happens ON or AFTER an error / absent / unsupported outcome: an error that is swallowed and replaced by a default, an Option that is unwrapped to a fallback, state that is partially modified before the error is returned, or an error raised for an input that is legal. The normal success paths that tests exercise must be untouched.",
 "boundary": "The change must only misbehave at a NUMERIC BOUNDARY: address arithmetic at or across 0, 2^31, 2^32, 2^63 or 2^64-1, the first or last byte of a 1024-byte page or of a 64-byte translation window, a width of 1 bit or of more than 64 bits, a length or count of 0 or 1, a displacement that is exactly the minimum or maximum encodable value. Everywhere else it must behave exactly as before.",
 "interplay": "The violation must need TWO FEATURES USED TOGETHER that are each well-behaved alone (for example: a backing plus permissions plus a clone; big-endian plus a page-crossing access; a program with several functions plus an indirect branch between them; manual edges plus overlapping blocks; the unsupported-instructions-as-intrinsics option plus a window boundary; the big-endian variant of a translator plus a particular addressing mode). Using either feature alone must behave exactly as before.",
 "perf": "The change must look like a PERFORMANCE OPTIMISATION (a cache or memoisation that can go stale, an early exit, a fast path for the common case, avoiding a clone or an allocation, replacing a general loop by a closed form) that is correct for the common case and wrong in a corner that needs a specific history or input shape to reach.",
}[variant]
a = P["anchors"]
mech = "; ".join(f"{m['name']} ({m['where']})" for m in a["mechanism"])
wt = f"/tmp/wt/{name}"
txt = f"""You are helping evaluate a verification effort by producing a realistic regression ("seeded defect") for an open-source Rust library. Work ONLY inside the git worktree {wt} (a checkout of the falconre/falcon binary-analysis library) and write your results to {wt}-out/ . Do not read or use anything under /verif or /repo, and do not touch any other directory. Other people work in sibling worktrees of the same repository at the same time: NEVER use `git stash` (the stash is shared between worktrees) - use `git diff > file` / `git apply -R file` / `git apply file` instead. The machine is busy: builds and test runs may take several minutes; be patient and do not run more than one cargo command at a time.

The property the library is supposed to satisfy (id {prop}): 

TITLE: {P['title']}

STATEMENT: {P['statement']}

QUANTIFIED OVER: {P['quantifier']['text']}

RELEVANT CODE (anchors): files {', '.join(a['files'])}; mechanisms: {mech}

YOUR TASK: make ONE small, realistic source change to the library (the kind of mistake a maintainer could plausibly introduce in a refactoring, optimisation or bug-fix) such that:
  1. the library still compiles, and the existing test suite still passes completely: run `cd {wt} && CARGO_NET_OFFLINE=true cargo test --workspace --no-fail-fast --offline` (443 unit tests + 2 doc tests must pass; the sandbox has no network);
  2. the property above is violated by your change;
  3. the violation needs something SPECIFIC to manifest - a particular interleaving of operations, a multi-step sequence, a fault or boundary at a particular point, an unusual input, specific alignment, or two cooperating sites that each look fine alone. It must NOT be something that ordinary simple use would expose at once.
{variants} Keep the total under ~20 changed lines. Do NOT reuse these already-tried ideas: {tried}.
Then write a demonstration: a NEW integration test file {wt}/tests/seeded_demo.rs (using only the library's public API, crate name `falcon`) that FAILS with your change and PASSES on the unmodified code. Verify both: run the demo with your change (must fail); then save your change with `git -C {wt} diff -- lib Cargo.toml > {wt}-out/patch.diff`, revert it with `git -C {wt} apply -R {wt}-out/patch.diff`, run the demo again (must pass), and re-apply it with `git -C {wt} apply {wt}-out/patch.diff`.

Deliverables in {wt}-out/ :
  - patch.diff : output of `git -C {wt} diff -- lib Cargo.toml` (library change only, NOT the demo test)
  - seeded_demo.rs : copy of your demonstration test
  - meta.json : {{"property": "{prop}", "summary": "<one sentence: what was changed>", "needs": "<what specific condition makes it manifest>", "ran": ["<commands you ran and their outcome>"]}}
Leave the worktree with your change applied and the demo test present. Keep the change small (ideally < 15 changed lines). Do not add dependencies. Do not modify existing tests. Report briefly what you did.
"""
open(f"/tmp/wt/{name}-prompt.txt", "w").write(txt)
print(len(txt))
