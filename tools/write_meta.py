#!/usr/bin/env python3
"""write_meta.py <name> <check(s)> <verdict> <detected_as> <strengthening> [variant-note]
builds /verif/seeded/<name>/meta.json from the agent's meta plus my confirmation record"""
import json, sys
name, checks, verdict, detected, strength = sys.argv[1:6]
note = sys.argv[6] if len(sys.argv) > 6 else "adversarial prompt listing the ideas already used"
d = f"/verif/seeded/{name}"
a = json.load(open(f"{d}/agent_meta.json"))
m = {
 "property": a["property"],
 "summary": a["summary"],
 "needs": a["needs"],
 "produced_by": f"independent sub-agent given only the property text and a scratch worktree of /repo (HEAD b194f89); {note}",
 "confirmed_by_me": [
  f"tools/verify_seeded.sh /tmp/wt/{name} : demo fails with the change, 443+2 baseline tests pass with the change, demo passes without the change",
 ] + [f"tools/try_patch.sh seeded/{name}/patch.diff {c} : git -C /repo apply, python3 run.py check {c} (quick tier, reduced scale), git -C /repo checkout -- ." for c in checks.split(",")],
 "check_verdict": verdict,
 "detected_as": detected,
 "strengthening": strength,
}
json.dump(m, open(f"{d}/meta.json", "w"), indent=1)
print("wrote", d)
