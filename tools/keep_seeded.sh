#!/bin/bash
# keep_seeded.sh <name> : copy an agent's deliverables into /verif/seeded/<name>/
n=$1
mkdir -p /verif/seeded/$n
cp /tmp/wt/$n-out/patch.diff /verif/seeded/$n/patch.diff
cp /tmp/wt/$n-out/seeded_demo.rs /verif/seeded/$n/seeded_demo.rs 2>/dev/null || cp /tmp/wt/$n/tests/seeded_demo.rs /verif/seeded/$n/seeded_demo.rs
cp /tmp/wt/$n-out/meta.json /verif/seeded/$n/agent_meta.json
