#!/usr/bin/env python3
"""One-time harvest of the hand-assembled instruction encodings in falcon's own
lifter tests into seed corpora for lift-sim (committed under sim/corpus/).
The checks never read /repo's tests at run time."""
import re, glob, os
OUT = os.path.join(os.path.dirname(os.path.abspath(__file__)), "..", "sim", "corpus")
def byte_arrays(text):
    out = set()
    for m in re.finditer(r"\[\s*((?:0x[0-9a-fA-F]{1,2}\s*,\s*)*0x[0-9a-fA-F]{1,2})\s*,?\s*\]", text):
        bs = [int(x, 16) for x in re.findall(r"0x([0-9a-fA-F]{1,2})\b", m.group(1))]
        if 1 <= len(bs) <= 32:
            out.add(bytes(bs).hex())
    return out
def words(text):
    out = set()
    for m in re.finditer(r"\b0x([0-9a-fA-F]{8})\b", text):
        out.add(int(m.group(1), 16).to_bytes(4, "little").hex())
    return out
def write(name, items):
    with open(os.path.join(OUT, name + ".txt"), "w") as f:
        for h in sorted(items):
            f.write(h + "\n")
    print(name, len(items))
x86 = set()
for p in glob.glob("/repo/lib/translator/x86/tests/*.rs"):
    x86 |= byte_arrays(open(p).read())
write("x86", x86)
write("mips", byte_arrays(open("/repo/lib/translator/mips/test.rs").read()))
write("ppc", byte_arrays(open("/repo/lib/translator/ppc/test.rs").read()))
t = open("/repo/lib/translator/aarch64/test.rs").read()
write("aarch64", words(t) | byte_arrays(t))
