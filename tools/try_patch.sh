#!/bin/bash
# try_patch.sh <patch file> <PROP> [scale] [tier]: apply a seeded change to /repo, run the check, undo it.
patch=$1; prop=$2; scale=${3:-1}; tier=${4:-quick}
cd /repo || exit 2
if [ -n "$(git status --porcelain)" ]; then echo "/repo not clean"; exit 2; fi
git apply $patch || { echo "patch does not apply"; exit 2; }
cd /verif; VERIF_SCALE=$scale python3 run.py check $prop --tier $tier > /tmp/try_patch.log 2>&1; rc=$?
git -C /repo checkout -- .; python3 /verif/run.py build > /dev/null 2>&1
echo "exit=$rc"; grep -c "^VIOLATION" /tmp/try_patch.log; grep -A2 "^VIOLATION" /tmp/try_patch.log | head -${5:-9} | cut -c1-300; tail -1 /tmp/try_patch.log
