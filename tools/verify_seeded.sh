#!/bin/bash
# verify_seeded.sh <worktree> : confirm a seeded change (applied in the worktree, demo in tests/seeded_demo.rs)
# fails its demo, passes the baseline suite, and that the demo passes without the change.
wt=$1
cd $wt || exit 2
export CARGO_NET_OFFLINE=true
echo "== demo WITH change (must fail)"; cargo test --offline --test seeded_demo 2>&1 | grep -E "^test result|panicked|error(\[|:)" | head -5
echo "== baseline suite WITH change (must pass 443+2)"; (cargo test --offline --workspace --no-fail-fast --lib 2>&1; cargo test --offline --workspace --no-fail-fast --doc 2>&1) | grep -E "^test result" | head -3
git stash push -q -- lib Cargo.toml 2>/dev/null || git stash push -q -- lib
echo "== demo WITHOUT change (must pass)"; cargo test --offline --test seeded_demo 2>&1 | grep -E "^test result|panicked|error(\[|:)" | head -5
git stash pop -q
git status --short | head -5
