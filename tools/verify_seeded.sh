#!/bin/bash
# verify_seeded.sh <worktree> : confirm a seeded change (applied in the worktree, demo in tests/seeded_demo.rs)
# fails its demo, passes the baseline suite, and that the demo passes without the change.
# (no git stash: the stash is shared between worktrees)
wt=$1
cd $wt || exit 2
export CARGO_NET_OFFLINE=true
echo "== demo WITH change (must fail)"; cargo test --offline --test seeded_demo 2>&1 | grep -E "^test result|panicked|error(\[|:)" | head -5
echo "== baseline suite WITH change (must pass 443+2)"; (cargo test --offline --workspace --no-fail-fast --lib 2>&1; cargo test --offline --workspace --no-fail-fast --doc 2>&1) | grep -E "^test result" | head -3
git diff -- lib Cargo.toml > $wt-out/verify.diff
git apply -R $wt-out/verify.diff || exit 2
echo "== demo WITHOUT change (must pass)"; cargo test --offline --test seeded_demo 2>&1 | grep -E "^test result|panicked|error(\[|:)" | head -5
git apply $wt-out/verify.diff
git status --short | head -5
